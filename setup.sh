#!/bin/bash
# Offline setup: third-party deps from /opt/veriftools/wheels, stale kernels rebuilt.
HERE="$(cd "$(dirname "${BASH_SOURCE[0]}")" && pwd)"
cd "$HERE" || exit 2
export PIP_NO_INDEX=1
mkdir -p .cache evidence
VERIF_WANT_ATHERIS=1 "${VERIF_PY:-/venv/bin/python}" vf/bootstrap.py
