import numpy as np, warnings
from astropy.wcs import WCS
from regions import PixCoord, make_example_dataset
warnings.simplefilter('ignore')
w=make_example_dataset(data='simulated').wcs
print(w.wcs.ctype, w.wcs.cdelt, w.wcs.crval, w.wcs.crpix)
x=np.array([[150.5,170,200],[160,175,187.25]]); y=x[::-1]*0.5+3
for origin in (0,1):
    for mode in ('all','wcs'):
        p=PixCoord(x,y); s=p.to_sky(w,origin=origin,mode=mode); q=PixCoord.from_sky(s,w,origin=origin,mode=mode)
        print(origin,mode,np.abs(q.x-p.x).max(),np.abs(q.y-p.y).max(), np.shape(q.x))
s0=PixCoord(x,y).to_sky(w,origin=0); s1=PixCoord(x+1,y+1).to_sky(w,origin=1); print('origin shift consistent', s0.separation(s1).max())
p=PixCoord(183,94); s=p.to_sky(w); q=PixCoord.from_sky(s,w); print(type(q.x), q)
