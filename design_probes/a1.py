import numpy as np, astropy.units as u, warnings, time, sys
from astropy.wcs import WCS
from astropy.coordinates import SkyCoord
from regions import *
warnings.simplefilter('ignore')
rng=np.random.default_rng(int(sys.argv[1]) if len(sys.argv)>1 else 0)
def mkwcs():
    proj=rng.choice(['TAN','SIN','CAR']); frame=rng.choice(['icrs','fk5','fk4','galactic'])
    w=WCS(naxis=2)
    names=('GLON','GLAT') if frame=='galactic' else ('RA--','DEC-')
    w.wcs.ctype=[f'{names[0]}-{proj}', f'{names[1]}-{proj}']
    if frame=='fk5': w.wcs.radesys='FK5'; w.wcs.equinox=2000.0
    if frame=='fk4': w.wcs.radesys='FK4'; w.wcs.equinox=1950.0
    if frame=='icrs': w.wcs.radesys='ICRS'
    lat=rng.uniform(-80,80); lon=rng.uniform(0,360)
    if proj=='CAR': w.wcs.crval=[lon,0.0]   # CAR usually referenced at equator
    else: w.wcs.crval=[lon,lat]
    w.wcs.crpix=[rng.uniform(0,500),rng.uniform(0,500)]
    scale=10**rng.uniform(np.log10(0.01/3600), np.log10(0.1))
    r=rng.uniform(0,2*np.pi); c,s=np.cos(r),np.sin(r); par=rng.choice([-1,1])
    w.wcs.cd=scale*np.array([[c,-s],[s,c]])@np.diag([par,1.0])
    w.wcs.set()
    return w,(proj,frame,scale,np.rad2deg(r),par)
def rreg():
    k=rng.integers(0,11); cx,cy=rng.uniform(-100,600,2); a,b=10**rng.uniform(-1,2.3,2); ang=rng.uniform(-400,400)*u.deg
    meta={'include':bool(rng.integers(0,2)),'text':'t'}; vis={'color':'red'}
    c=PixCoord(cx,cy)
    if k==0: return CirclePixelRegion(c,a,meta,vis)
    if k==1: return EllipsePixelRegion(c,a,b,ang,meta,vis)
    if k==2: return RectanglePixelRegion(c,a,b,ang,meta,vis)
    if k==3: return PolygonPixelRegion(PixCoord(cx+rng.uniform(-a,a,5),cy+rng.uniform(-b,b,5)),meta,vis)
    if k==4: return CircleAnnulusPixelRegion(c,a,a*1.5,meta,vis)
    if k==5: return EllipseAnnulusPixelRegion(c,a,a*1.5,b,b*2,ang,meta,vis)
    if k==6: return RectangleAnnulusPixelRegion(c,a,a*1.5,b,b*2,ang,meta,vis)
    if k==7: return PointPixelRegion(c,meta,vis)
    if k==8: return LinePixelRegion(c,PixCoord(cx+a,cy+b),meta,vis)
    if k==9: return TextPixelRegion(c,'hello',meta,{'rotation':30.0})
    if k==10: return RegularPolygonPixelRegion(c,5,a,ang,meta,vis)
def relerr(x,y,scale=None): 
    x=np.asarray(x,float); y=np.asarray(y,float)
    return float(np.max(np.abs(x-y)/np.maximum(1,np.abs(x) if scale is None else scale)))
worst={}; n=0; t=time.time(); fails=[]
for i in range(int(sys.argv[2]) if len(sys.argv)>2 else 300):
    w,desc=mkwcs(); R=rreg()
    try:
        S=R.to_sky(w); R2=S.to_pixel(w)
    except Exception as e:
        fails.append((desc,repr(R),type(e).__name__,str(e)[:80])); continue
    n+=1
    errs=[]
    for p in R._params if not isinstance(R,RegularPolygonPixelRegion) else ['vertices']:
        v1=getattr(R,p); v2=getattr(R2,p)
        if isinstance(v1,PixCoord): errs.append(relerr(v1.x,v2.x)); errs.append(relerr(v1.y,v2.y))
        elif isinstance(v1,u.Quantity):
            d=((v1-v2).to_value(u.deg)+180)%360-180; errs.append(abs(np.deg2rad(d)))
        elif isinstance(v1,str): errs.append(0 if v1==v2 else 9)
        else: errs.append(abs(v1-v2)/abs(v1))
    e=max(errs); key=(type(R).__name__)
    if e>worst.get(key,(0,))[0]: worst[key]=(e,desc)
    if dict(R.meta)!=dict(R2.meta): fails.append(('meta',repr(R)))
print('n',n,'time',time.time()-t)
for k,v in worst.items(): print(k, '%.2e'%v[0], v[1])
print('fails',len(fails)); print(fails[:6])
