import numpy as np, astropy.units as u, collections, math
from regions import *
rng=np.random.default_rng(9)
bad=collections.Counter(); ex={}; worst=0
def params(r):
    out=[]
    for p in r._params:
        v=getattr(r,p)
        if isinstance(v,PixCoord): out+=list(np.atleast_1d(v.x))+list(np.atleast_1d(v.y))
        elif isinstance(v,u.Quantity): out.append(('ang',v.to_value(u.deg)))
        elif isinstance(v,Region): out+=params(v)
        elif callable(v) or isinstance(v,str): pass
        else: out.append(float(v))
    return out
for i in range(3000):
    k=i%11; c=PixCoord(rng.uniform(-100,100),rng.uniform(-100,100)); w,h=10**rng.uniform(-1,2,2); ang=rng.uniform(-400,400)*u.deg
    mk=lambda k: [CirclePixelRegion(c,w),EllipsePixelRegion(c,w,h,ang),RectanglePixelRegion(c,w,h,ang),PolygonPixelRegion(PixCoord(c.x+rng.uniform(-w,w,5),c.y+rng.uniform(-h,h,5))),
         RegularPolygonPixelRegion(c,int(rng.integers(3,9)),w,ang),CircleAnnulusPixelRegion(c,w,w*1.7),EllipseAnnulusPixelRegion(c,w,w*1.5,h,h*1.8,ang),RectangleAnnulusPixelRegion(c,w,w*1.5,h,h*1.8,ang),
         PointPixelRegion(c),LinePixelRegion(c,PixCoord(c.x+w,c.y+h)),TextPixelRegion(c,'t')][k]
    reg=mk(k) if k<10 or True else None
    if i%7==0: reg = reg | CirclePixelRegion(PixCoord(c.x+w,c.y),h) if k<8 else reg
    piv=PixCoord(rng.uniform(-1000,1000),rng.uniform(-1000,1000)) if rng.random()<.7 else c
    th=rng.uniform(-2000,2000)*rng.choice([u.deg,u.rad,u.arcmin])
    r2=reg.rotate(piv,th); r3=r2.rotate(piv,-th)
    if type(r2) is not type(reg): bad['class']+=1
    if dict(r2.meta)!=dict(reg.meta): bad['meta']+=1
    try:
        if abs(r2.area-reg.area)>1e-9*max(1,abs(reg.area)): bad[('area',type(reg).__name__)]+=1; ex.setdefault(('area',type(reg).__name__),(reg.area,r2.area))
    except NotImplementedError: pass
    pa,pb=params(reg),params(r3)
    scale=max(w,h)+abs(piv.x-c.x)+abs(piv.y-c.y)+abs(c.x)+abs(c.y)
    for a,b in zip(pa,pb):
        if isinstance(a,tuple): d=abs(((a[1]-b[1])+180)%360-180); lim=1e-9
        else: d=abs(a-b); lim=1e-9*scale*(1+abs(th.to_value(u.rad))*1e-3)
        worst=max(worst,d/lim)
        if d>lim: bad[('roundtrip',type(reg).__name__)]+=1; ex.setdefault(('roundtrip',type(reg).__name__),(a,b,d,lim))
    # membership
    bb=reg.bounding_box
    pts=PixCoord(rng.uniform(bb.ixmin-2,bb.ixmax+2,200),rng.uniform(bb.iymin-2,bb.iymax+2,200))
    m1=reg.contains(pts); m2=r2.contains(pts.rotate(piv,th))
    # near filter via scaling about bbox centre
    dis=(m1!=m2)
    if dis.any():
        # recheck with slight perturbation to see if near-boundary
        near=np.zeros(200,bool)
        for dx,dy in ((1e-6,0),(-1e-6,0),(0,1e-6),(0,-1e-6)):
            s=1e-6*scale*1e3
            near|= reg.contains(PixCoord(pts.x+np.sign(dx)*s,pts.y+np.sign(dy)*s))!=m1
        if (dis&~near).any(): bad[('member',type(reg).__name__)]+=1; ex.setdefault(('member',type(reg).__name__),(repr(reg),repr(piv),th))
print(dict(bad),'worst ratio',worst); print(ex)
