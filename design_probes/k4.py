import numpy as np, astropy.units as u, warnings, collections
from astropy.wcs import WCS
from astropy.coordinates import SkyCoord
from regions import *
warnings.simplefilter('ignore')
rng=np.random.default_rng(4)
def mkwcs():
    proj=rng.choice(['TAN','SIN']); frame=rng.choice(['icrs','fk5','galactic'])
    w=WCS(naxis=2); names=('GLON','GLAT') if frame=='galactic' else ('RA--','DEC-')
    w.wcs.ctype=[f'{names[0]}-{proj}', f'{names[1]}-{proj}']
    if frame=='fk5': w.wcs.radesys='FK5'; w.wcs.equinox=2000.0
    if frame=='icrs': w.wcs.radesys='ICRS'
    w.wcs.crval=[rng.uniform(0,360),rng.uniform(-85,85)]; w.wcs.crpix=[rng.uniform(0,500),rng.uniform(0,500)]
    scale=10**rng.uniform(-5,-2); r=rng.uniform(0,2*np.pi); c,s=np.cos(r),np.sin(r)
    w.wcs.cd=scale*np.array([[c,-s],[s,c]])@np.diag([-1.0,1.0]); w.wcs.set()
    return w,scale,frame
res=[]
for i in range(1500):
    w,scale,frame=mkwcs()
    px=w.wcs.crpix-1+rng.uniform(-300,300,2)
    cen=w.pixel_to_world(px[0],px[1])
    if abs(cen.spherical.lat.deg)>85: continue
    if rng.random()<.4: cen=cen.transform_to(rng.choice(['icrs','galactic','fk5']))
    Wp,Hp=rng.uniform(1,50,2); W,H=(Wp*scale*u.deg),(Hp*scale*u.deg); A=rng.uniform(-360,360)*u.deg
    sk=EllipseSkyRegion(cen,W,H,A); p=sk.to_pixel(w)
    cx,cy=w.world_to_pixel(cen); cerr=np.hypot(cx-p.center.x,cy-p.center.y)
    qs=[]
    for pa,sep in ((A-90*u.deg,W/2),(A+90*u.deg,W/2),(A,H/2),(A+180*u.deg,H/2)):
        pt=cen.directional_offset_by(pa,sep); x,y=w.world_to_pixel(pt); dx,dy=x-p.center.x,y-p.center.y
        ca,sa=np.cos(p.angle),np.sin(p.angle)
        qs.append(float(((ca*dx+sa*dy)/(p.width/2))**2+((-sa*dx+ca*dy)/(p.height/2))**2))
    off=np.hypot(*(px-(w.wcs.crpix-1)))*scale  # field angle deg
    res.append((max(abs(np.array(qs)-1)), max(Wp,Hp)*scale, off, cerr, abs(cen.spherical.lat.deg) if True else 0, (p.width/(Wp)-1), min(Wp,Hp)/max(Wp,Hp)))
res=np.array(res)
print('n',len(res),'max |q-1|',res[:,0].max(),'center err max',res[:,3].max(),'width rel err max',np.abs(res[:,5]).max())
i=np.argsort(res[:,0])[-5:]; print(res[i])
# correlation: residual vs size(deg) & field angle
big=res[res[:,0]>1e-3]; print('count >1e-3',len(big)); print(big[:5])
