import numpy as np, astropy.units as u, warnings, itertools
from regions import *
from regions.io.ds9.core import ds9_valid_symbols
warnings.simplefilter('ignore')
c=PixCoord(3,4)
vis_opts=[{'color':'red'},{'facecolor':'blue','edgecolor':'blue'},{'linewidth':3},{'linestyle':'dashed'},{'linestyle':(0,(8,3))},{'fill':True},{'fill':False},
          {'fontname':'times','fontsize':12,'fontweight':'bold','fontstyle':'italic'},{'fontname':'helvetica'},{'marker':'D','markersize':7},{'marker':ds9_valid_symbols['boxcircle']},{'marker':'*'},
          {'rotation':30.0},{'textangle':30},{'markeredgewidth':2},{'dash':1,'dashlist':'8 3'},{'default_style':'ds9','color':'green'}]
shapes=[lambda m,v:CirclePixelRegion(c,2,m,v), lambda m,v:PointPixelRegion(c,m,v), lambda m,v:TextPixelRegion(c,'tt',m,v), lambda m,v:LinePixelRegion(c,PixCoord(5,6),m,v), lambda m,v:CircleAnnulusPixelRegion(c,2,3,m,v), lambda m,v:PolygonPixelRegion(PixCoord([1,2,3],[1,5,2]),m,v)]
meta_opts=[{}, {'select':1,'highlite':0,'fixed':1,'edit':0,'move':1,'delete':0,'rotate':1,'source':1}, {'background':1}, {'tag':['a','b c']}, {'text':'lbl'}, {'label':'L','comment':'cm','name':'nm'}]
bad=0
for sh in shapes:
  for v in vis_opts:
    for m in meta_opts:
        try:
            r=sh(dict(m),dict(v)); s=r.serialize(format='ds9'); p1=Regions.parse(s,format='ds9'); s2=p1.serialize(format='ds9'); p2=Regions.parse(s2,format='ds9')
            if len(p1)!=1 or p1[0]!=p2[0] or s2!=p2.serialize(format='ds9'):
                bad+=1; print('NOTFIXED', type(r).__name__, v, m, '\n ',s.splitlines()[1:], '\n ', s2.splitlines()[1:], dict(p1[0].visual), dict(p2[0].visual))
        except Exception as e:
            bad+=1; print('EXC', type(r).__name__, v, m, type(e).__name__, str(e)[:100])
print('bad',bad)
