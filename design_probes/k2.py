import numpy as np, astropy.units as u, math, collections, time
from regions import *
rng=np.random.default_rng(11)
EPS=2.0**-52
def margin_fn(reg):
    """returns f(x,y)-> (margin, tau) arrays; margin>0 inside; in comparison space"""
    name=type(reg).__name__
    if name=='CirclePixelRegion':
        cx,cy,r=reg.center.x,reg.center.y,reg.radius
        def f(x,y):
            d=np.hypot(x-cx,y-cy); return r-d, 64*EPS*(abs(cx)+abs(cy)+r+np.abs(x)+np.abs(y))
        return f
    if name in('EllipsePixelRegion','RectanglePixelRegion'):
        cx,cy=reg.center.x,reg.center.y; a,b=reg.width/2,reg.height/2
        deg=reg.angle.to_value(u.deg); th=math.radians(math.remainder(deg,360.0)); c,s=math.cos(th),math.sin(th)
        angerr=4*EPS*abs(reg.angle.to_value(u.rad))
        def f(x,y):
            dx,dy=x-cx,y-cy; uu=c*dx+s*dy; vv=-s*dx+c*dy
            pos=64*EPS*(abs(cx)+abs(cy)+np.abs(x)+np.abs(y)) + angerr*np.hypot(dx,dy)
            if name[0]=='E':
                q=(uu/a)**2+(vv/b)**2
                return 1-q, (64*EPS + 4*pos/min(a,b)*(1+np.sqrt(q)))
            return np.minimum(a-np.abs(uu), b-np.abs(vv)), pos+64*EPS*(a+b)
        return f
    if name in ('PolygonPixelRegion','RegularPolygonPixelRegion'):
        vx=np.asarray(reg.vertices.x,float); vy=np.asarray(reg.vertices.y,float)
        def f(x,y):
            x=np.asarray(x,float); y=np.asarray(y,float)
            inside=np.zeros(x.shape,bool); dist=np.full(x.shape,np.inf)
            n=len(vx)
            for i in range(n):
                j=(i-1)%n
                xi,yi,xj,yj=vx[i],vy[i],vx[j],vy[j]
                cond=((yi>y)!=(yj>y))
                with np.errstate(all='ignore'):
                    xint=(xj-xi)*(y-yi)/(yj-yi)+xi
                inside^=cond&(x<xint)
                ex,ey=xj-xi,yj-yi; L2=ex*ex+ey*ey
                t=np.clip(((x-xi)*ex+(y-yi)*ey)/L2,0,1) if L2>0 else 0
                dist=np.minimum(dist,np.hypot(x-(xi+t*ex),y-(yi+t*ey)))
            return np.where(inside,dist,-dist), 64*EPS*(np.abs(x)+np.abs(y)+np.abs(vx).max()+np.abs(vy).max())
        return f
def strip(reg): return reg
def ref_fraction(f, ix, iy, n):
    k=(np.arange(n)+0.5)/n-0.5
    X,Y=np.meshgrid(ix+k, iy+k)
    m,t=f(X,Y)
    return int(np.sum(m>t)), int(np.sum(m>=-t))
def rnd(kind):
    mode=rng.integers(0,3)
    al=lambda: float(rng.integers(-8,8))+rng.choice([0,0.5,0.25])
    cx,cy=(al(),al()) if mode else (rng.uniform(-30,30),rng.uniform(-30,30))
    if rng.random()<.15: cx+=1e5; cy-=1e5
    w,h=(abs(al())+0.5,abs(al())+1.0) if mode==1 else (10**rng.uniform(-1,1.3),10**rng.uniform(-1,1.3))
    ang=(rng.choice([0,90,45,30,360])*u.deg) if mode==2 else rng.uniform(-1000,1000)*u.deg
    c=PixCoord(cx,cy)
    if kind==0: return CirclePixelRegion(c,w)
    if kind==1: return EllipsePixelRegion(c,w,h,ang)
    if kind==2: return RectanglePixelRegion(c,w,h,ang)
    if kind==3: return PolygonPixelRegion(PixCoord(cx+np.array([al() for _ in range(5)]),cy+np.array([al() for _ in range(5)])))
    if kind==4: return RegularPolygonPixelRegion(c,int(rng.integers(3,8)),w,ang)
bad=collections.Counter(); ex={}; amb=0; tot=0; t0=time.time()
for i in range(1500):
    reg=rnd(i%5); f=margin_fn(reg)
    for n in (1,2,3,5,7,12):
        m=reg.to_mask('subpixels',n) if n>1 else reg.to_mask('center'); bb=m.bbox
        if n==1 and not np.array_equal(m.data, reg.to_mask('subpixels',1).data): bad['center!=sub1']+=1
        for j in range(m.data.shape[0]):
            for i2 in range(m.data.shape[1]):
                lo,hi=ref_fraction(f,bb.ixmin+i2,bb.iymin+j,n); v=m.data[j,i2]*n*n; tot+=1
                if lo!=hi: amb+=1
                if not (lo-1e-9<=v<=hi+1e-9):
                    k=(type(reg).__name__,n); bad[k]+=1; ex.setdefault(k,(repr(reg),(bb.ixmin+i2,bb.iymin+j),lo,hi,v))
print('pixels',tot,'ambiguous',amb,'time',round(time.time()-t0,1)); print(dict(bad))
for k,v in list(ex.items())[:8]: print(k,v)
