import numpy as np, astropy.units as u, warnings
from astropy.wcs import WCS
from astropy.coordinates import SkyCoord
from regions import *
def mkwcs(rot_deg, scale, proj='TAN', frame='icrs', crval=(30.,40.), parity=-1):
    w=WCS(naxis=2)
    names={'icrs':('RA--','DEC-'),'fk5':('RA--','DEC-'),'galactic':('GLON','GLAT'),'fk4':('RA--','DEC-')}[frame]
    w.wcs.ctype=[f'{names[0]}-{proj}', f'{names[1]}-{proj}']
    if frame=='fk5': w.wcs.radesys='FK5'; w.wcs.equinox=2000.0
    if frame=='fk4': w.wcs.radesys='FK4'; w.wcs.equinox=1950.0
    if frame=='icrs': w.wcs.radesys='ICRS'
    w.wcs.crval=list(crval); w.wcs.crpix=[100.,120.]
    r=np.deg2rad(rot_deg); c,s=np.cos(r),np.sin(r)
    w.wcs.cd=scale*np.array([[parity*c, s],[-parity*(-s)*(-1) if False else parity*(-s)*(-1)*(-1), c]])  # placeholder
    # explicit: CD = scale * R(rot) @ diag(parity,1)
    R=np.array([[c,-s],[s,c]]); w.wcs.cd=scale*R@np.diag([parity,1.0])
    return w
for rot in [0,33,120,-75]:
  for frame in ['icrs','galactic','fk5']:
    w=mkwcs(rot,1e-3,frame=frame)
    cen=SkyCoord(30.02,40.03,unit='deg',frame='icrs' if frame!='galactic' else 'galactic')
    if frame=='galactic': cen=SkyCoord(30.02,40.03,unit='deg',frame='galactic')
    W,H,A=40*u.arcsec,20*u.arcsec,25*u.deg
    sk=EllipseSkyRegion(cen,W,H,A)
    px=sk.to_pixel(w)
    # oracle: offset points
    pw=cen.directional_offset_by(A-90*u.deg, W/2); ph=cen.directional_offset_by(A, H/2)
    res=[]
    for p,tag in [(pw,'w'),(ph,'h')]:
        x,y=w.world_to_pixel(p); dx,dy=x-px.center.x,y-px.center.y
        ca,sa=np.cos(px.angle),np.sin(px.angle)
        q=((ca*dx+sa*dy)/(px.width/2))**2+((-sa*dx+ca*dy)/(px.height/2))**2
        res.append(float(q))
    cx,cy=w.world_to_pixel(cen)
    print(rot,frame,'q(w),q(h)=',np.round(res,5),'center err',float(np.hypot(cx-px.center.x,cy-px.center.y)), 'pix angle',px.angle.to_value(u.deg)%360, 'w,h',px.width,px.height)
