import numpy as np, astropy.units as u, warnings, traceback
from regions import *
warnings.simplefilter('ignore')
def t(regs,label):
    try:
        Regions(regs).write('/tmp/probe/t.fits',overwrite=True); out=Regions.read('/tmp/probe/t.fits'); print(label,'OK',[dict(r.meta) for r in out])
    except Exception as e:
        tb=traceback.extract_tb(e.__traceback__); print(label,'EXC',type(e).__name__,e,'|',[(f.filename.split('/')[-1],f.name,f.lineno) for f in tb][-4:])
c=PixCoord(1,2)
t([CirclePixelRegion(c,3)],'one circle')
t([CirclePixelRegion(c,3),CirclePixelRegion(c,4)],'two circles')
t([CirclePixelRegion(c,3,meta={'component':4})],'one circle comp')
t([CirclePixelRegion(c,3,meta={'component':4}),CirclePixelRegion(c,3)],'partial comp')
t([PointPixelRegion(c)],'point')
t([CirclePixelRegion(c,3),EllipsePixelRegion(c,3,4,5*u.deg)],'circle+ellipse')
t([EllipsePixelRegion(c,3,4,5*u.deg)],'ellipse')
