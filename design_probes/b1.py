import numpy as np, astropy.units as u, warnings, time, sys, collections, traceback
from astropy.coordinates import SkyCoord, Angle
from regions import *
warnings.simplefilter('ignore')
rng=np.random.default_rng(int(sys.argv[1]) if len(sys.argv)>1 else 0)
frames=['image','icrs','fk5','fk4','galactic','barycentricmeanecliptic']
def rreg(frame, p):
    k=rng.integers(0,10)
    minsz=2*10.0**(-p)
    if frame=='image':
        c=PixCoord(rng.uniform(-1000,1000),rng.uniform(-1000,1000)); sz=lambda: float(max(10**rng.uniform(-2,3), 4*minsz)); ang=rng.uniform(-400,400)*u.deg
        mk=lambda dx,dy: PixCoord(c.x+dx,c.y+dy)
        C=dict(circle=CirclePixelRegion,ell=EllipsePixelRegion,rect=RectanglePixelRegion,poly=PolygonPixelRegion,cann=CircleAnnulusPixelRegion,eann=EllipseAnnulusPixelRegion,rann=RectangleAnnulusPixelRegion,pt=PointPixelRegion,line=LinePixelRegion,text=TextPixelRegion)
        verts=lambda: PixCoord(c.x+rng.uniform(-50,50,4), c.y+rng.uniform(-50,50,4))
    else:
        c=SkyCoord(rng.uniform(0,360),rng.uniform(-85,85),unit='deg',frame=frame)
        unit=rng.choice([u.arcsec,u.arcmin,u.deg])
        sz=lambda: (max(10**rng.uniform(-4,0.5), 4*minsz)*u.deg).to(unit); ang=Angle(rng.uniform(-400,400),'deg') if rng.random()<.5 else rng.uniform(-6,6)*u.rad
        mk=lambda dx,dy: SkyCoord(c.spherical.lon.deg+dx*0.01, np.clip(c.spherical.lat.deg+dy*0.01,-89,89),unit='deg',frame=frame)
        C=dict(circle=CircleSkyRegion,ell=EllipseSkyRegion,rect=RectangleSkyRegion,poly=PolygonSkyRegion,cann=CircleAnnulusSkyRegion,eann=EllipseAnnulusSkyRegion,rann=RectangleAnnulusSkyRegion,pt=PointSkyRegion,line=LineSkyRegion,text=TextSkyRegion)
        verts=lambda: SkyCoord(c.spherical.lon.deg+rng.uniform(-.5,.5,4), np.clip(c.spherical.lat.deg+rng.uniform(-.5,.5,4),-89,89),unit='deg',frame=frame)
    meta={}; vis={}
    if rng.random()<.5: meta['text']='a b;c #d=e'
    if rng.random()<.3: meta['tag']=['t1','t 2']
    if rng.random()<.3: vis['color']=rng.choice(['red','#ff00aa'])
    if rng.random()<.3: vis['linewidth']=int(rng.integers(1,5))
    s1=sz(); s2=sz()
    if k==0: return C['circle'](c,s1,meta=meta,visual=vis)
    if k==1: return C['ell'](c,s1,s2,ang,meta=meta,visual=vis)
    if k==2: return C['rect'](c,s1,s2,ang,meta=meta,visual=vis)
    if k==3: return C['poly'](verts(),meta=meta,visual=vis)
    if k==4: return C['cann'](c,s1,s1*2,meta=meta,visual=vis)
    if k==5: return C['eann'](c,s1,s1*2,s2,s2*3,ang,meta=meta,visual=vis)
    if k==6: return C['rann'](c,s1,s1*2,s2,s2*3,ang,meta=meta,visual=vis)
    if k==7: return C['pt'](c,meta=meta,visual=vis)
    if k==8: return C['line'](c,mk(3,4),meta=meta,visual=vis)
    if k==9:
        meta.pop('text',None); return C['text'](c,'some text',meta=meta,visual=vis)
buckets=collections.Counter(); ex={}
N=int(sys.argv[2]) if len(sys.argv)>2 else 300
for i in range(N):
    p=int(rng.integers(1,13)); nreg=int(rng.integers(1,4))
    regs=[rreg(rng.choice(frames),p) for _ in range(nreg)]
    try:
        s=Regions(regs).serialize(format='ds9',precision=p)
        out=Regions.parse(s,format='ds9')
    except Exception as e:
        tb=traceback.extract_tb(e.__traceback__); fr=[f for f in tb if '/regions/' in f.filename][-1]
        key=('EXC',type(e).__name__,fr.name); buckets[key]+=1; ex.setdefault(key,(p,[repr(r)[:150] for r in regs],str(e)[:100])); continue
    if len(out)!=len(regs): buckets[('count',)]+=1; ex.setdefault(('count',),(s,)); continue
    for a,b in zip(regs,out):
        if type(a) is not type(b): buckets[('class',type(a).__name__,type(b).__name__)]+=1; continue
        for par in a._params:
            va,vb=getattr(a,par),getattr(b,par)
            tol=0.5*10.0**(-p)
            if isinstance(va,PixCoord): d=max(np.max(np.abs(np.asarray(va.x)-vb.x)),np.max(np.abs(np.asarray(va.y)-vb.y))); lim=tol+1e-12*1000
            elif isinstance(va,SkyCoord):
                if va.frame.name!=vb.frame.name: buckets[('frame',va.frame.name,vb.frame.name)]+=1; continue
                d=max(np.max(np.abs(va.spherical.lon.deg-vb.spherical.lon.deg)),np.max(np.abs(va.spherical.lat.deg-vb.spherical.lat.deg))); lim=tol+1e-12
            elif isinstance(va,u.Quantity):
                x=va.to_value(u.deg); y=vb.to_value(u.deg); d=abs(x-y)
                k=2 if ('Ellipse' in type(a).__name__ and par!='angle') else 1
                lim=k*tol*max(1,10**np.floor(np.log10(abs(x))) if abs(x)<1e-4 else 1)+1e-12
                if abs(x)<1e-4: lim=k*tol*10**np.floor(np.log10(abs(x)))+1e-18
            elif isinstance(va,str): d=0 if va==vb else 1; lim=0
            else:
                k=2 if 'Ellipse' in type(a).__name__ else 1
                d=abs(va-vb); lim=k*tol+1e-12*abs(va)
            if d>lim:
                key=('value',type(a).__name__,par); buckets[key]+=1; ex.setdefault(key,(p,repr(a)[:200],repr(b)[:200],d,lim))
        if a.meta.get('text')!=b.meta.get('text'): buckets[('text',type(a).__name__)]+=1; ex.setdefault(('text',),(a.meta,b.meta,s))
        if a.meta.get('tag')!=b.meta.get('tag'): buckets[('tag',)]+=1
    # fixed point
    try:
        s2=out.serialize(format='ds9',precision=p); out2=Regions.parse(s2,format='ds9')
        if s2!=out2.serialize(format='ds9',precision=p): buckets[('fixedpoint-text',)]+=1
        for a,b in zip(out,out2):
            if a!=b: buckets[('fixedpoint-eq',type(a).__name__)]+=1; ex.setdefault(('fixedpoint-eq',type(a).__name__),(p,repr(a)[:200],repr(b)[:200],dict(a.meta),dict(b.meta),dict(a.visual),dict(b.visual)))
    except Exception as e:
        buckets[('fixedpoint-exc',type(e).__name__)]+=1
print(N, dict(buckets))
for k,v in ex.items(): print(k,'::',v)
