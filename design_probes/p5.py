import sys; sys.path.insert(0,'/tmp/probe/deps')
import numpy as np, astropy.units as u, time
from regions import *
from ref_area import ellipse_pixel_area, mp
mp.mp.dps = 30
rng = np.random.default_rng(int(sys.argv[1]) if len(sys.argv)>1 else 1)
def check(reg, kind, maxpix=24):
    m = reg.to_mask(mode='exact'); bb = m.bbox
    d = m.data
    if not np.all(np.isfinite(d)): return ('nonfinite', None)
    if d.min() < 0 or d.max() > 1+1e-12: return ('range', (d.min(), d.max()))
    jj,ii = np.nonzero((d>0)&(d<1))
    sel = list(zip(jj,ii)); rng.shuffle(sel); sel = sel[:maxpix-4]
    for _ in range(4):
        sel.append((rng.integers(d.shape[0]), rng.integers(d.shape[1])))
    worst = 0; w=None
    for (j,i) in sel:
        ix, iy = bb.ixmin+int(i), bb.iymin+int(j)
        if kind=='c': a=b=reg.radius; th=0
        else: a,b,th = reg.width/2, reg.height/2, reg.angle.to_value(u.rad)
        ref = ellipse_pixel_area(reg.center.x, reg.center.y, a, b, th, ix, iy)
        dd = abs(float(ref) - d[j,i])
        if dd > worst: worst, w = dd, (ix,iy,float(ref),float(d[j,i]))
    return worst, w
t=time.time(); bad=[]; N=int(sys.argv[2]) if len(sys.argv)>2 else 150
for k in range(N):
    scale = 10**rng.uniform(-3, 1.7)
    cx, cy = rng.uniform(-5,5,2)
    if k%3==0:
        reg = CirclePixelRegion(PixCoord(cx,cy), scale); kind='c'
    else:
        ratio = 10**rng.uniform(0,2)
        a = scale; b = max(scale/ratio, 1e-3)
        reg = EllipsePixelRegion(PixCoord(cx,cy), 2*a, 2*b, rng.uniform(0,360)*u.deg); kind='e'
    worst,w = check(reg, kind)
    if isinstance(worst,str) or worst > 1e-8: bad.append((worst,w,repr(reg)))
print('time',time.time()-t,'N',N,'bad',len(bad))
for b in bad[:12]: print(b)
