import numpy as np, astropy.units as u, warnings
from astropy.coordinates import SkyCoord
from regions import *
warnings.simplefilter('ignore')
def rt(regs, **kw):
    try:
        s = Regions(regs).serialize(format='crtf', **kw)
    except Exception as e:
        print('SER EXC', type(e).__name__, e); return
    print(s)
    try:
        out = Regions.parse(s, format='crtf'); 
        for r in out: print('  ->', r, dict(r.meta), dict(r.visual))
    except Exception as e: print('  PARSE EXC', type(e).__name__, e)
    return s
c = CirclePixelRegion(PixCoord(1,2), 3, meta={'include': False, 'label':'lab'}, visual={'color':'red'})
rt([c], coordsys='image'); print('after: ', dict(c.meta))
rt([c], coordsys='image')
sk = CircleSkyRegion(SkyCoord(10,20,unit='deg',frame='fk5'), 3*u.arcsec, meta={'include':False,'type':'ann','label':'x y','range':[1*u.GHz, 2*u.GHz], 'corr':['I','Q'], 'frame':'TOPO','veltype':'RADIO'})
rt([sk]); 
rt([sk], coordsys='galactic', fmt='.3f', radunit='arcsec')
e = EllipseSkyRegion(SkyCoord(10,20,unit='deg',frame='galactic'), 3*u.arcsec, 2*u.arcmin, 1*u.rad)
rt([e], radunit='arcsec')
e = EllipsePixelRegion(PixCoord(1,2), 3, 4, 30*u.deg); rt([e], coordsys='image')
r = RectanglePixelRegion(PixCoord(1,2), 3, 4, 30*u.deg); rt([r], coordsys='image')
p = PolygonPixelRegion(PixCoord([1,2,3],[3,4,9])); rt([p], coordsys='image')
l = LinePixelRegion(PixCoord(1,2),PixCoord(3,4)); rt([l], coordsys='image')
t = TextPixelRegion(PixCoord(1,2),'hello, world'); rt([t], coordsys='image')
pt = PointPixelRegion(PixCoord(1,2), visual={'symbol':'D'}); rt([pt], coordsys='image')
pt = PointPixelRegion(PixCoord(1,2)); rt([pt], coordsys='image')
a = CircleAnnulusPixelRegion(PixCoord(1,2),3,4); rt([a], coordsys='image')
a = EllipseAnnulusPixelRegion(PixCoord(1,2),3,4,5,6); rt([a], coordsys='image')
ts = TextSkyRegion(SkyCoord(10,20,unit='deg'),'hi'); rt([ts], coordsys='icrs')
ps = PolygonSkyRegion(SkyCoord([10,11,12],[20,21,20],unit='deg')); rt([ps], coordsys='icrs')
ls = LineSkyRegion(SkyCoord(10,20,unit='deg'),SkyCoord(11,20,unit='deg')); rt([ls])
