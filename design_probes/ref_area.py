import mpmath as mp
mp.mp.dps = 40
def disk_poly_area(poly, r=1):
    """area of intersection of disk radius r centred at origin with simple polygon (list of (x,y)), any orientation"""
    r = mp.mpf(r); tot = mp.mpf(0)
    n = len(poly)
    for i in range(n):
        px,py = map(mp.mpf, poly[i]); qx,qy = map(mp.mpf, poly[(i+1)%n])
        dx,dy = qx-px, qy-py
        a = dx*dx+dy*dy
        if a == 0: continue
        b = 2*(px*dx+py*dy); c = px*px+py*py-r*r
        disc = b*b-4*a*c
        ts = [mp.mpf(0), mp.mpf(1)]
        if disc > 0:
            sq = mp.sqrt(disc)
            for t in ((-b-sq)/(2*a), (-b+sq)/(2*a)):
                if 0 < t < 1: ts.append(t)
        ts.sort()
        for t0,t1 in zip(ts[:-1], ts[1:]):
            if t1 == t0: continue
            tm = (t0+t1)/2
            mx,my = px+tm*dx, py+tm*dy
            ax,ay = px+t0*dx, py+t0*dy; bx,by = px+t1*dx, py+t1*dy
            if mx*mx+my*my < r*r:
                tot += (ax*by-ay*bx)/2
            else:
                ang = mp.atan2(ax*by-ay*bx, ax*bx+ay*by)
                tot += r*r*ang/2
    return abs(tot)
def ellipse_pixel_area(cx, cy, a, b, theta, ix, iy):
    """ellipse semi-axes a,b centre (cx,cy) rot theta; pixel (ix,iy) unit square"""
    cx,cy,a,b,theta = map(mp.mpf,(cx,cy,a,b,theta))
    c,s = mp.cos(theta), mp.sin(theta)
    pts=[]
    for (x,y) in ((ix-0.5,iy-0.5),(ix+0.5,iy-0.5),(ix+0.5,iy+0.5),(ix-0.5,iy+0.5)):
        dx,dy = mp.mpf(x)-cx, mp.mpf(y)-cy
        pts.append(((c*dx+s*dy)/a, (-s*dx+c*dy)/b))
    return disk_poly_area(pts,1)*a*b
if __name__=='__main__':
    print(disk_poly_area([(-2,-2),(2,-2),(2,2),(-2,2)]), mp.pi)
    print(disk_poly_area([(0,0),(2,0),(2,2),(0,2)]), mp.pi/4)
    print(ellipse_pixel_area(0,0,3,2,0.3,0,0))
