import numpy as np, astropy.units as u, warnings, collections, os
from regions import *
warnings.simplefilter('ignore')
rng=np.random.default_rng(8)
def rreg(nv):
    k=rng.integers(0,8); c=PixCoord(rng.uniform(-1e3,1e3),rng.uniform(-1e3,1e3)); a,b=10**rng.uniform(-3,3,2)
    ang=rng.uniform(-400,400)*rng.choice([u.deg,u.rad,u.arcmin]) if rng.random()<.7 else Angle(rng.uniform(0,360),'deg')
    meta={}
    if rng.random()<.4: meta['component']=int(rng.integers(0,50))
    if k==0: return PointPixelRegion(c,meta)
    if k==1: return CirclePixelRegion(c,a,meta)
    if k==2: return EllipsePixelRegion(c,a,b,ang,meta)
    if k==3: return CircleAnnulusPixelRegion(c,a,a*1.5,meta)
    if k==4: return EllipseAnnulusPixelRegion(c,a,a*1.5,b,b*2,ang,meta)
    if k==5: return RectanglePixelRegion(c,a,b,ang,meta)
    if k==6: return PolygonPixelRegion(PixCoord(rng.uniform(-50,50,nv),rng.uniform(-50,50,nv)),meta)
    if k==7: return RegularPolygonPixelRegion(c,nv,a,ang,meta)
from astropy.coordinates import Angle
bad=collections.Counter(); ex={}
os.makedirs('/tmp/probe/fx',exist_ok=True)
for i in range(800):
    n=int(rng.integers(1,9)); nv=int(rng.integers(3,9)); regs=[rreg(nv) for _ in range(n)]
    for path in ('mem','file'):
        try:
            if path=='mem': out=Regions.parse(Regions(regs).serialize(format='fits'),format='fits')
            else:
                fn='/tmp/probe/fx/t.fits'; Regions(regs).write(fn,overwrite=True); out=Regions.read(fn)
        except Exception as e: bad[('EXC',path,type(e).__name__)]+=1; ex.setdefault(('EXC',path,type(e).__name__),([repr(r)[:80] for r in regs],str(e)[:100])); continue
        if len(out)!=len(regs): bad[('count',path)]+=1; continue
        comps=[r.meta.get('component') for r in regs]
        oc=[r.meta.get('component') for r in out]
        if all(c is None for c in comps):
            if any(c is not None for c in oc): bad[('comp-invented',path)]+=1
        else:
            if any(c is None for c in oc) or len(set(oc))!=len(oc) and len(set(c for c in comps if c is not None))==len([c for c in comps if c is not None]): bad[('comp-missing-or-dup',path)]+=1; ex.setdefault(('comp',),(comps,oc))
            for a,b in zip(comps,oc):
                if a is not None and a!=b: bad[('comp-changed',path)]+=1
        for a,b in zip(regs,out):
            ta=type(a).__name__.replace('RegularPolygon','Polygon')
            if ta!=type(b).__name__: bad[('class',ta,type(b).__name__)]+=1; continue
            for p in b._params:
                va=getattr(a,p) if not isinstance(a,RegularPolygonPixelRegion) else a.vertices
                vb=getattr(b,p)
                if isinstance(va,PixCoord): same=np.array_equal(np.asarray(va.x,float),np.asarray(vb.x,float)) and np.array_equal(np.asarray(va.y,float),np.asarray(vb.y,float))
                elif isinstance(va,u.Quantity): same=abs((va-vb).to_value(u.deg))<=1e-12*max(1,abs(va.to_value(u.deg)))
                else: same=(va==vb)
                if not same: bad[('value',ta,p,path)]+=1; ex.setdefault(('value',ta,p),(repr(a),repr(b)))
    # fixed point
    try:
        p1=Regions.parse(Regions(regs).serialize(format='fits'),format='fits'); p2=Regions.parse(p1.serialize(format='fits'),format='fits')
        if len(p1)!=len(p2) or any(x!=y for x,y in zip(p1,p2)): bad[('fixedpoint',)]+=1; ex.setdefault(('fixedpoint',),[ (repr(x),repr(y),dict(x.meta),dict(y.meta)) for x,y in zip(p1,p2) if x!=y][:2])
    except Exception as e: bad[('fp-exc',type(e).__name__)]+=1
print(dict(bad)); 
for k,v in ex.items(): print(k,v)
