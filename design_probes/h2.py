import numpy as np, astropy.units as u, warnings
from astropy.table import QTable, Table
from regions import Regions
warnings.simplefilter('ignore')
t=QTable()
t['SHAPE']=['box','rotbox','rectangle','rotrectangle','!box','circle','point']
t['X']=np.array([[10,0],[10,0],[10,14],[10,14],[1,0],[5,0],[7,0]],float)*u.pix
t['Y']=np.array([[20,0],[20,0],[20,26],[20,26],[2,0],[5,0],[7,0]],float)*u.pix
t['R']=np.array([[4,6],[4,6],[0,0],[0,0],[2,3],[3,0],[0,0]],float)*u.pix
t['ROTANG']=np.array([0,30,0,30,0,0,0],float)*u.deg
t['COMPONENT']=[1,2,3,4,5,6,7]
for r in Regions.parse(t,format='fits'): print(repr(r), dict(r.meta))
# plain Table without units
t2=Table(); t2['SHAPE']=['circle']; t2['X']=[5.0]; t2['Y']=[6.0]; t2['R']=[2.0]
for r in Regions.parse(t2,format='fits'): print(repr(r), dict(r.meta))
# through file
Regions.parse(t,format='fits').write('/tmp/probe/x.fits',overwrite=True); rr=Regions.read('/tmp/probe/x.fits'); print(len(rr), [dict(r.meta) for r in rr][:3])
from astropy.io import fits; print(repr(fits.getheader('/tmp/probe/x.fits',1))[:600])
