import itertools, numpy as np, collections
from regions import RegionBoundingBox as B
R=range(-3,5)
boxes=[(a,b,c,d) for a in R for b in R if a<=b for c in R for d in R if c<=d]
print(len(boxes))
def pix(b): return {(x,y) for x in range(b[0],b[1]) for y in range(b[2],b[3])}
bad=collections.Counter(); ex={}
shapes=[(ny,nx) for ny in range(0,6) for nx in range(0,6)]
for b in boxes:
    bb=B(*b); P=pix(b)
    assert bb.shape==(b[3]-b[2], b[1]-b[0])
    for sh in shapes:
        img={(x,y) for x in range(sh[1]) for y in range(sh[0])}
        common=P&img
        sl,ss=bb.get_overlap_slices(sh)
        if sl is None:
            if common: bad['none-but-common']+=1
            continue
        L={(x,y) for y in range(*sl[0].indices(10**6)) for x in range(*sl[1].indices(10**6))}
        S={(x+b[0],y+b[2]) for y in range(*ss[0].indices(10**6)) for x in range(*ss[1].indices(10**6))}
        if not common: 
            k=('empty-not-none', 'emptybox' if not P else 'emptyimg' if not img else 'other'); bad[k]+=1; ex.setdefault(k,(b,sh,sl,ss))
        if L!=common or S!=common: 
            if common or L or S: bad['window-mismatch']+=1; ex.setdefault('window-mismatch',(b,sh,sl,ss))
        if any(s.start<0 or s.stop<0 for s in sl+ss): bad['negative-slice']+=1; ex.setdefault('negative-slice',(b,sh,sl,ss))
print(dict(bad)); print(ex)
# union/intersection
bad=collections.Counter()
sub=[b for b in boxes if all(-2<=v<=3 for v in b)]
for b1 in sub:
    for b2 in sub:
        u_=B(*b1)|B(*b2); i_=B(*b1)&B(*b2)
        U=pix(b1)|pix(b2); I=pix(b1)&pix(b2)
        up=pix((u_.ixmin,u_.ixmax,u_.iymin,u_.iymax))
        if not U<=up: bad['union-not-superset']+=1
        # minimal: bounding box of nonempty operands
        if i_ is None:
            if I: bad['inter-none-but-common']+=1
        else:
            if pix((i_.ixmin,i_.ixmax,i_.iymin,i_.iymax))!=I: bad['inter-mismatch']+=1
        # union minimality w.r.t. pixel sets when an operand is empty
        ne=[b for b in (b1,b2) if pix(b)]
        if ne:
            mn=(min(b[0] for b in ne),max(b[1] for b in ne),min(b[2] for b in ne),max(b[3] for b in ne))
            if (u_.ixmin,u_.ixmax,u_.iymin,u_.iymax)!=mn: bad['union-not-minimal-with-empty-operand' if len(ne)<2 else 'union-not-minimal']+=1
print(len(sub),dict(bad))
