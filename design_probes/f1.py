import numpy as np, astropy.units as u
from regions import PixCoord
cases=[(1,2),(1,[1,2,3]),([1,2,3],[[1],[2]]),([],[]),(np.zeros((0,3)),np.zeros((0,3))),(np.arange(6).reshape(2,3),np.arange(3)),(np.int32(3),np.float32(2.5)),(np.array(3),np.array(4.0))]
for x,y in cases:
    p=PixCoord(x,y); print(type(p.x).__name__, np.shape(p.x), p.isscalar, end=' | ')
    try: print('len',len(p), 'iter',[ (q.x if np.isscalar(q.x) else q.x.tolist()) for q in p][:3])
    except Exception as e: print(type(e).__name__, e)
try: PixCoord([1,2],[1,2,3])
except Exception as e: print('nonbroadcast',type(e).__name__)
p=PixCoord(np.arange(12.).reshape(3,4),np.arange(12.).reshape(3,4)*2)
for key in [1,-1,slice(0,2),(1,2),(slice(None),1),np.array([True,False,True]),np.array([0,2]),Ellipsis,(Ellipsis,0),None]:
    try:
        q=p[key]; print(repr(key)[:30],'->',np.shape(q.x), np.array_equal(q.x,p.x[key]) and np.array_equal(q.y,p.y[key]))
    except Exception as e: print(repr(key)[:30],'EXC',type(e).__name__,e)
a=PixCoord(1,2); print(a==PixCoord(1,2), a==(1,2), a!=PixCoord(1,3))
x=np.array([1.,2,3]); p=PixCoord(x,x*2); x[0]=99; print('alias to input array:', p.x[0])
cp=p.copy(); cp.x[1]=-5; print('copy indep', p.x[1])
r=PixCoord(3,4).rotate(PixCoord(1,1), 90*u.deg); print(r, type(r.x))
r=PixCoord([3,4],[4,5]).rotate(PixCoord(1,1), 0.3*u.rad); print(r)
print(PixCoord(1,2)+PixCoord([1,2],[3,4]))
