import warnings; warnings.simplefilter('ignore')
from regions import *
c=[CirclePixelRegion(PixCoord(1,2),3,meta={'source':1,'select':1,'move':0,'edit':1,'text':'t'},visual={'color':'red','linewidth':2,'fontname':'times','fill':True}) for _ in range(2)]
print(Regions(c).serialize(format='ds9').splitlines()[1])
