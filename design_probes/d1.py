import warnings
from regions import Regions
tests = {
'basic': "#CRTFv0\nglobal coord=J2000, color=blue\ncircle[[10deg, 20deg], 3arcsec], color=red, label='x'\ncircle[[11deg, 21deg], 3arcsec]",
'sexa': "#CRTFv0\ncircle[[18:20:30.12, -10.11.54.69], 2.3arcsec], coord=J2000",
'pix': "#CRTFv0\ncircle[[10pix, 20pix], 3pix]",
'pixell': "#CRTFv0\nellipse[[10pix, 20pix], [4pix, 2pix], 30deg]",
'ell': "#CRTFv0\nglobal coord=GALACTIC\nellipse[[10deg, 20deg], [4arcsec, 2arcsec], 30deg]",
'box': "#CRTFv0\nbox[[10pix, 20pix], [30pix, 50pix]]",
'boxsky': "#CRTFv0\nbox[[10deg, 20deg], [10.1deg, 20.2deg]], coord=ICRS",
'centerbox': "#CRTFv0\ncenterbox[[10pix, 20pix], [4pix, 2pix]]",
'rotbox': "#CRTFv0\nrotbox[[10pix, 20pix], [4pix, 2pix], 45deg]",
'poly': "#CRTFv0\npoly[[1pix, 2pix], [3pix, 4pix], [5pix, 1pix]]",
'polysky': "#CRTFv0\npoly[[1deg, 2deg], [3deg, 4deg], [5deg, 1deg]], coord=B1950",
'annulus': "#CRTFv0\n-annulus[[10pix, 20pix], [3pix, 5pix]]",
'ann': "#CRTFv0\nann circle[[10pix, 20pix], 3pix]",
'minusann': "#CRTFv0\n-ann circle[[10pix, 20pix], 3pix]",
'symbol': "#CRTFv0\nsymbol[[10pix, 20pix], D], symsize=3",
'text': "#CRTFv0\ntext[[10pix, 20pix], 'my text'], fontsize=12",
'line': "#CRTFv0\nline[[10pix, 20pix], [30pix, 40pix]]",
'linesky': "#CRTFv0\nline[[10deg, 20deg], [30deg, 40deg]], coord=J2000",
'nounit': "#CRTFv0\ncircle[[10deg, 20deg], 3], coord=J2000",
'rad': "#CRTFv0\ncircle[[0.1rad, 0.2rad], 0.001rad], coord=ICRS",
'hms': "#CRTFv0\ncircle[[12h30m10s, -10d20m30s], 3arcmin], coord=J2000",
'range': "#CRTFv0\ncircle[[10deg, 20deg], 3arcsec], coord=J2000, range=[1GHz, 2GHz], corr=[I, Q], veltype=RADIO, frame=TOPO, restfreq=1.42GHz, linewidth=2, linestyle=-, symthick=2, font=Helvetica, fontsize=10, fontstyle=bold, usetex=false, labelpos=top, labelcolor=red, labeloff=[1, 2]",
'plus': "#CRTFv0\n+circle[[10pix, 20pix], 3pix]",
'vector': "#CRTFv0\nvector[[10pix, 20pix], [30pix, 40pix]]",
'upper': "#CRTFv0\nCIRCLE[[10pix, 20pix], 3pix]",
'noheader': "circle[[10pix, 20pix], 3pix]",
'badkey': "#CRTFv0\ncircle[[10pix, 20pix], 3pix], foo=bar",
}
for k,s in tests.items():
    with warnings.catch_warnings(record=True) as w:
        warnings.simplefilter('always')
        try:
            out=Regions.parse(s,format='crtf')
            print(k,'=>',len(out),'regions; warnings',len(w))
            for r in out: print('    ',repr(r)[:200].replace('\n',' '), dict(r.meta), dict(r.visual))
        except Exception as e: print(k,'EXC',type(e).__name__,str(e)[:150])
