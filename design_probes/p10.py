import numpy as np, astropy.units as u, warnings
from regions import *
def mk(ixmin,ixmax,iymin,iymax, w=None):
    bb=RegionBoundingBox(ixmin,ixmax,iymin,iymax)
    if w is None: w=np.linspace(0,1,bb.shape[0]*bb.shape[1]).reshape(bb.shape)
    return RegionMask(w,bb)
m=mk(-1,2,-1,2)
for data,fv in [(np.arange(16).reshape(4,4),2.5),(np.arange(16).reshape(4,4),np.nan),(np.arange(16.).reshape(4,4)*u.Jy,5.0),(np.arange(16.).reshape(4,4)*u.Jy,np.nan),(np.arange(16.).reshape(4,4)*u.Jy,0.0)]:
    for meth in ('cutout','multiply'):
        try:
            r=getattr(m,meth)(data,fill_value=fv); print(meth, type(data).__name__, data.dtype, fv,'->',type(r).__name__, r.dtype, np.asarray(r)[0].tolist())
        except Exception as e: print(meth,type(data).__name__,fv,'EXC',type(e).__name__,e)
# empty bbox & zero-size image
for bb,shape in [((2,2,0,3),(5,5)),((-1,2,-1,2),(0,4)),((1,3,1,3),(0,0)),((0,0,0,0),(3,3))]:
    b=RegionBoundingBox(*bb); print(bb,shape,'slices',b.get_overlap_slices(shape))
    mm=RegionMask(np.ones(b.shape),b)
    for f in ('to_image','cutout','multiply','get_values'):
        try:
            arg = shape if f=='to_image' else np.zeros(shape)
            r=getattr(mm,f)(arg); print('  ',f,'->',None if r is None else (type(r).__name__, r.shape))
        except Exception as e: print('  ',f,'EXC',type(e).__name__,e)
# get_values with quantity & mask
d=np.arange(16.).reshape(4,4)*u.Jy; print(m.get_values(d, mask=np.eye(4,dtype=bool)))
print((0.3*u.deg)==(18*u.arcmin), (18*u.arcmin)==(0.3*u.deg))
