import numpy as np, astropy.units as u, warnings, copy, operator
from astropy.coordinates import SkyCoord, Angle
from regions import *
warnings.simplefilter('ignore')
c=PixCoord(3.5,4.25); sc=SkyCoord(10,20,unit='deg'); m={'text':'a','tag':['x']}; v={'color':'red'}
regs=[CirclePixelRegion(c,2,m,v),EllipsePixelRegion(c,2,3,10*u.deg,m,v),RectanglePixelRegion(c,2,3,10*u.deg,m,v),PolygonPixelRegion(PixCoord([1,2,3.],[1,5,2.]),m,v),
 RegularPolygonPixelRegion(c,5,2,10*u.deg,m,v),CircleAnnulusPixelRegion(c,2,3,m,v),EllipseAnnulusPixelRegion(c,2,3,4,5,10*u.deg,m,v),RectangleAnnulusPixelRegion(c,2,3,4,5,10*u.deg,m,v),
 PointPixelRegion(c,m,v),LinePixelRegion(c,PixCoord(5,6),m,v),TextPixelRegion(c,'t',m,v),
 CircleSkyRegion(sc,2*u.arcsec,m,v),EllipseSkyRegion(sc,2*u.arcsec,3*u.arcsec,10*u.deg,m,v),PolygonSkyRegion(SkyCoord([1,2,3],[1,5,2],unit='deg'),m,v),LineSkyRegion(sc,SkyCoord(11,20,unit='deg'),m,v),TextSkyRegion(sc,'t',m,v),
 CircleAnnulusSkyRegion(sc,2*u.arcsec,3*u.arcsec,m,v)]
regs.append(regs[0] & regs[1]); regs.append(regs[11] | regs[12]); regs.append((regs[0]^regs[2]) | regs[3])
for r in regs:
    name=type(r).__name__
    cp=r.copy(); dc=copy.deepcopy(r)
    ok = (cp==r) and (r==cp) and (dc==r) and not (cp!=r)
    if not ok: print(name,'copy not equal', cp==r, dc==r)
    # aliasing
    for obj,label in ((cp,'copy'),(dc,'deepcopy')):
        if obj.meta is r.meta or obj.visual is r.visual: print(name,label,'shares meta/visual object')
        obj.meta['text']='CHANGED'; obj.visual['color']='CHANGED'
        if r.meta.get('text')=='CHANGED' or r.visual.get('color')=='CHANGED': print(name,label,'meta aliasing visible')
        if 'tag' in obj.meta: obj.meta['tag'].append('zzz')
        if 'zzz' in r.meta.get('tag',[]): print(name,label,'tag list aliasing')
        for p in r._params:
            a,b=getattr(r,p),getattr(obj,p)
            if isinstance(a,PixCoord) and not a.isscalar and np.shares_memory(a.x,b.x): print(name,label,p,'shares array memory')
            if a is b and not isinstance(a,(int,float,str)) and not callable(a): print(name,label,p,'same object')
    # perturb each field
    for p in r._params:
        val=getattr(r,p)
        if isinstance(val,PixCoord): new=PixCoord(np.asarray(val.x)*(1+1e-3)+1e-3, val.y); tiny=PixCoord(np.asarray(val.x)*(1+1e-8), val.y)
        elif isinstance(val,SkyCoord): new=SkyCoord(val.spherical.lon+1e-6*u.deg, val.spherical.lat, frame=val.frame); tiny=None
        elif isinstance(val,u.Quantity): new=val*(1+1e-15)+val*1e-15 ; new = val*(1+2.3e-16) if (val*(1+2.3e-16)!=val) else val*(1+5e-16); tiny=None
        elif isinstance(val,str): new=val+'x'; tiny=None
        elif callable(val): new=operator.or_ if val is not operator.or_ else operator.and_; tiny=None
        elif isinstance(val,Region): continue
        else: new=np.nextafter(float(val),np.inf); tiny=None
        try: r2=r.copy(**{p:new})
        except Exception as e: print(name,p,'copy(change) EXC',type(e).__name__,e); continue
        if r2==r or r==r2: print(name,p,'perturbed but equal')
        others=[q for q in r._params if q!=p]
        for q in others:
            a,b=getattr(r,q),getattr(r2,q)
            if isinstance(a,Region): same=(a==b)
            else: same = not np.any(a!=b)
            if not same: print(name,'copy(',p,') also changed',q)
        if tiny is not None:
            r3=r.copy(**{p:tiny})
            if r3!=r: print(name,p,'sub-tolerance position change compares unequal')
    r2=r.copy(); r2.meta['text']='zz'
    if r2==r: print(name,'meta change not seen')
    r2=r.copy(); r2.visual['color']='zz'
    if r2==r: print(name,'visual change not seen')
    # unit re-expression
    for p in r._params:
        val=getattr(r,p)
        if isinstance(val,u.Quantity) and val.unit.physical_type=='angle':
            nv=val.to(u.arcmin) if val.unit!=u.arcmin else val.to(u.deg)
            if (nv==val) and (val==nv):
                r2=r.copy(**{p:nv})
                if not (r2==r and r==r2): print(name,p,'unit re-expression unequal')
print('done')
