import os, warnings
from regions import *
warnings.simplefilter('ignore')
c=PixCoord(1,2); regs=[CirclePixelRegion(c,3,meta={'component':4}),CirclePixelRegion(c,3)]
for pre in ('absent','file'):
    p='/tmp/probe/z.fits'
    if os.path.exists(p): os.remove(p)
    if pre=='file': open(p,'wb').write(b'SENTINEL')
    try: Regions(regs).write(p,overwrite=True); print('ok')
    except Exception as e: print(pre,'->',type(e).__name__, 'exists after:',os.path.exists(p), (open(p,'rb').read()[:20], os.path.getsize(p)) if os.path.exists(p) else None)
os.remove(p) if os.path.exists(p) else None
