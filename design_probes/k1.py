import sys; sys.path.insert(0,'/tmp/probe/deps')
import numpy as np, astropy.units as u, math, collections
import mpmath as mp
from regions import *
mp.mp.dps=40
rng=np.random.default_rng(5)
EPS=2.0**-52
def true_extent(reg):
    name=type(reg).__name__
    if name.startswith('Circle'):
        r=reg.radius if hasattr(reg,'radius') else reg.outer_radius
        cx,cy,r=mp.mpf(reg.center.x),mp.mpf(reg.center.y),mp.mpf(r); return cx-r,cx+r,cy-r,cy+r
    if name.startswith(('Ellipse','Rectangle')):
        w=reg.width if hasattr(reg,'width') else reg.outer_width; h=reg.height if hasattr(reg,'height') else reg.outer_height
        # angle: exact reduction in given unit
        th=mp.mpf(reg.angle.value)*mp.mpf(reg.angle.unit.to(u.rad)) if reg.angle.unit!=u.deg else mp.mpf(reg.angle.value)*mp.pi/180
        a,b=mp.mpf(w)/2,mp.mpf(h)/2; c,s=mp.cos(th),mp.sin(th)
        if name.startswith('Ellipse'): dx=mp.sqrt((a*c)**2+(b*s)**2); dy=mp.sqrt((a*s)**2+(b*c)**2)
        else: dx=abs(a*c)+abs(b*s); dy=abs(a*s)+abs(b*c)
        cx,cy=mp.mpf(reg.center.x),mp.mpf(reg.center.y); return cx-dx,cx+dx,cy-dy,cy+dy
    if name.startswith(('Polygon','RegularPolygon')):
        x=[mp.mpf(float(v)) for v in reg.vertices.x]; y=[mp.mpf(float(v)) for v in reg.vertices.y]; return min(x),max(x),min(y),max(y)
def check(reg):
    bb=reg.bounding_box; xmin,xmax,ymin,ymax=true_extent(reg)
    scale=max(abs(float(xmin)),abs(float(xmax)),abs(float(ymin)),abs(float(ymax)),1.0)
    ang=abs(reg.angle.to_value(u.rad)) if hasattr(reg,'angle') else 0
    size=float(xmax-xmin)+float(ymax-ymin)
    tau=64*EPS*scale + 4*EPS*ang*size
    out=[]
    for lo,hi,imin,imax,ax in ((xmin,xmax,bb.ixmin,bb.ixmax,'x'),(ymin,ymax,bb.iymin,bb.iymax,'y')):
        if not (imin-0.5 <= lo+tau): out.append(('enclose-min',ax,float(lo),imin))
        if not (hi-tau <= imax-0.5): out.append(('enclose-max',ax,float(hi),imax))
        if imax>imin:
            if not (lo < imin+0.5+tau): out.append(('minimal-min',ax,float(lo),imin))
            if not (hi > imax-1.5-tau): out.append(('minimal-max',ax,float(hi),imax))
    return out
bad=collections.Counter(); ex={}
def aligned():
    k=rng.integers(-20,20); return float(k)+rng.choice([0,0.5,-0.5,0.25,0.125]) + rng.choice([0,0,2.0**-30,-2.0**-30, 1e-9,-1e-9])
for i in range(6000):
    kind=i%5; mode=rng.integers(0,3)
    cx,cy=(aligned(),aligned()) if mode else (rng.uniform(-50,50),rng.uniform(-50,50))
    w,h=(abs(aligned())+0.5,abs(aligned())+0.5) if mode==1 else (10**rng.uniform(-2,2),10**rng.uniform(-2,2))
    ang=(rng.choice([0,90,180,270,45,30,360,-90,720])*u.deg) if mode==2 else (rng.uniform(-1e4,1e4)*rng.choice([u.deg,u.rad,u.arcmin]))
    c=PixCoord(cx,cy)
    reg=[CirclePixelRegion(c,w), EllipsePixelRegion(c,w,h,ang), RectanglePixelRegion(c,w,h,ang), PolygonPixelRegion(PixCoord([aligned() for _ in range(4)],[aligned() for _ in range(4)])), EllipseAnnulusPixelRegion(c,w/2,w,h/2,h,ang)][kind]
    for o in check(reg):
        k=(type(reg).__name__,o[0]); bad[k]+=1; ex.setdefault(k,(repr(reg),o,reg.bounding_box))
print(dict(bad)); 
for k,v in ex.items(): print(k,v)
