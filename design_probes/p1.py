import numpy as np, astropy.units as u, warnings
from regions import *
# polygon scalar contains
poly = PolygonPixelRegion(PixCoord([0,4,4,0],[0,0,4,4]))
r = poly.contains(PixCoord(1,1)); print('poly scalar contains ->', type(r), getattr(r,'shape',None), r)
c = CirclePixelRegion(PixCoord(0,0), 2)
r = c.contains(PixCoord(1,1)); print('circle scalar ->', type(r))
r = RectanglePixelRegion(PixCoord(0,0), 2,2).contains(PixCoord(0,0)); print('rect scalar ->', type(r))
r = EllipsePixelRegion(PixCoord(0,0), 2,2).contains(PixCoord(0,0)); print('ell scalar ->', type(r))
ann = CircleAnnulusPixelRegion(PixCoord(0,0),1,2); r=ann.contains(PixCoord(1.5,0)); print('ann scalar', type(r), r)
for cls,args in [(PointPixelRegion,(PixCoord(0,0),)),(LinePixelRegion,(PixCoord(0,0),PixCoord(1,1))),(TextPixelRegion,(PixCoord(0,0),'x'))]:
    reg=cls(*args)
    for pc in [PixCoord(0,0), PixCoord([0,1],[0,1]), PixCoord(np.zeros((2,3)),np.zeros((2,3))), PixCoord([],[])]:
        try:
            r=reg.contains(pc); print(cls.__name__, type(r), getattr(r,'shape',None), r if np.size(r)<3 else '')
        except Exception as e: print(cls.__name__,'EXC',type(e).__name__,e)
    reg.meta['include']=False
    try: print(' include False ->', reg.contains(PixCoord(0,0)), reg.contains(PixCoord([0,1],[0,1])))
    except Exception as e: print(' EXC', type(e).__name__, e)
# empty query
for reg in [poly,c,ann]:
    try: r=reg.contains(PixCoord([],[])); print(type(reg).__name__,'empty ->', r.shape, r.dtype)
    except Exception as e: print('empty EXC', type(e).__name__, e)
# int coords
print(poly.contains(PixCoord(np.array([1,5]),np.array([1,5]))))
# NaN radius
for v in [float('nan'), float('inf'), True, np.float64(2), np.array(2.0), np.array([2.0]), '3', None, [1], 0, -1]:
    try:
        CirclePixelRegion(PixCoord(0,0), v); print('radius',repr(v),'ACCEPTED')
    except Exception as e: print('radius',repr(v),type(e).__name__)
m = RegionMeta(); 
try:
    m |= {'bad':1}; print('|= bypass:', dict(m))
except Exception as e: print('|= ', type(e).__name__)
v = RegionVisual()
try:
    v |= {'bad':1}; print('|= bypass visual:', dict(v))
except Exception as e: print('|= ', type(e).__name__)
try:
    m2 = RegionMeta.fromkeys(['bad']); print('fromkeys', m2)
except Exception as e: print('fromkeys', type(e).__name__)
R = Regions([c]); 
try: R.insert(0,'notregion'); print('insert accepted', R)
except Exception as e: print('insert', type(e).__name__)
ann.inner_radius = 10
print('annulus after bad assign', ann.inner_radius, ann.outer_radius)
