import numpy as np, astropy.units as u, warnings, collections, traceback, itertools
from astropy.coordinates import SkyCoord, Angle
from regions import *
warnings.simplefilter('ignore')
rng=np.random.default_rng(0)
buckets=collections.Counter(); ex={}
def mk(kind, sky, frame):
    if sky:
        c=SkyCoord(rng.uniform(0,360),rng.uniform(-80,80),unit='deg',frame=frame); sz=lambda: rng.uniform(1,100)*u.arcsec
        c2=SkyCoord(c.spherical.lon.deg+0.1,c.spherical.lat.deg+0.1,unit='deg',frame=frame)
        v=SkyCoord(c.spherical.lon.deg+rng.uniform(-.5,.5,4), c.spherical.lat.deg+rng.uniform(-.5,.5,4),unit='deg',frame=frame)
        C=dict(circle=CircleSkyRegion,ell=EllipseSkyRegion,rect=RectangleSkyRegion,poly=PolygonSkyRegion,cann=CircleAnnulusSkyRegion,pt=PointSkyRegion,line=LineSkyRegion,text=TextSkyRegion)
    else:
        c=PixCoord(rng.uniform(0,100),rng.uniform(0,100)); sz=lambda: rng.uniform(1,100); c2=PixCoord(c.x+3,c.y+4)
        v=PixCoord(c.x+rng.uniform(-5,5,4), c.y+rng.uniform(-5,5,4))
        C=dict(circle=CirclePixelRegion,ell=EllipsePixelRegion,rect=RectanglePixelRegion,poly=PolygonPixelRegion,cann=CircleAnnulusPixelRegion,pt=PointPixelRegion,line=LinePixelRegion,text=TextPixelRegion)
    a=rng.uniform(0,360)*u.deg; s=sz()
    return {'circle':lambda:C['circle'](c,s),'ell':lambda:C['ell'](c,s,sz(),a),'rect':lambda:C['rect'](c,s,sz(),a),'poly':lambda:C['poly'](v),'cann':lambda:C['cann'](c,s,s*2),
            'pt':lambda:C['pt'](c,visual={'symbol':'D'}),'line':lambda:C['line'](c,c2),'text':lambda:C['text'](c,'txt')}[kind]()
kinds=['circle','ell','rect','poly','cann','pt','line','text']
for kind in kinds:
  for sky in (False,True):
    fr_list=['image'] if not sky else ['fk5','fk4','icrs','galactic','supergalactic','geocentrictrueecliptic']
    for frame in fr_list:
      for cs in (fr_list if sky else ['image']):
        for radunit in ['deg','arcsec','arcmin','rad']:
          if not sky and radunit!='deg': continue
          for fmt in ['.3f','.8f']:
            reg=mk(kind,sky,frame if sky else None)
            for inc in (True,False):
                reg.meta['include']=inc
                key0=(kind,'sky' if sky else 'pix', 'samefr' if cs==frame else 'xfr', radunit)
                try:
                    s=Regions([reg]).serialize(format='crtf',coordsys=cs,fmt=fmt,radunit=radunit)
                    out=Regions.parse(s,format='crtf')
                except Exception as e:
                    tb=traceback.extract_tb(e.__traceback__); fr=[f for f in tb if '/regions/' in f.filename][-1]
                    k=key0+('EXC',type(e).__name__,fr.name); buckets[k]+=1; ex.setdefault(k,s if 's' in dir() else ''); continue
                if len(out)!=1 or type(out[0]).__name__!=type(reg).__name__: buckets[key0+('class',)]+=1; continue
                if out[0].meta.get('include')!=inc: buckets[key0+('include',)]+=1
                if kind=='text' and out[0].text!=reg.text: buckets[key0+('textstr',)]+=1
                buckets[key0+('ok',)]+=1
for k,v in sorted(buckets.items()): 
    if k[-1]!='ok': print(k,v)
print('ok total', sum(v for k,v in buckets.items() if k[-1]=='ok'))
