"""Probe: reduced prototype of the C10 idea - abstract DS9 file -> (text, expected) and
compare with Regions.parse.  Throw-away; measures how much of the grammar the unchanged
parser agrees with before the framework is written."""
import sys, warnings, collections, math
import numpy as np
from hypothesis import given, settings, strategies as st, seed, HealthCheck
from regions import Regions, PixCoord
import astropy.units as u

SKY_FRAMES = {'icrs': 'icrs', 'fk5': 'fk5', 'j2000': 'fk5', 'fk4': 'fk4', 'b1950': 'fk4',
              'galactic': 'galactic', 'ecliptic': 'barycentricmeanecliptic'}
UNSUP_FRAMES = ['physical', 'detector', 'linear', 'amplifier', 'tile', 'wcs', 'wcsa', 'wcsq']
UNSUP_SHAPES = ['vector', 'ruler', 'compass', 'projection', 'panda', 'epanda', 'bpanda']

num = st.floats(0.001, 9999, allow_nan=False).map(lambda v: round(v, 4))

def fmt(v):
    s = f'{v:.6f}'.rstrip('0')
    return s + '0' if s.endswith('.') else s

@st.composite
def lon_lat(draw, equatorial):
    """returns (lon_text, lat_text, lon_deg, lat_deg)"""
    style = draw(st.sampled_from(['dec', 'dsuf', 'rsuf', 'colon', 'hms']))
    lon = draw(st.floats(0, 359.99).map(lambda v: round(v, 5)))
    lat = draw(st.floats(-89, 89).map(lambda v: round(v, 5)))
    if style == 'dec':
        return fmt(lon), fmt(lat), lon, lat
    if style == 'dsuf':
        return fmt(lon) + 'd', fmt(lat) + 'd', lon, lat
    if style == 'rsuf':
        a, b = round(math.radians(lon), 7), round(math.radians(lat), 7)
        return f'{a:.7f}r', f'{b:.7f}r', math.degrees(a), math.degrees(b)
    # sexagesimal with integer fields
    def sexa(val, hours):
        sign = '-' if val < 0 else '+'
        val = abs(val) / (15 if hours else 1)
        d = int(val); m = int((val - d) * 60); s = round(((val - d) * 60 - m) * 60, 2)
        if s >= 60: s = 59.99
        back = (d + m / 60 + s / 3600) * (15 if hours else 1)
        return sign, d, m, s, back
    if style == 'colon':
        sg, d, m, s, lonb = sexa(lon, equatorial)
        lt = f'{d}:{m:02d}:{s:05.2f}'
        sg2, d2, m2, s2, latb = sexa(lat, False)
        return lt, f'{sg2}{d2}:{m2:02d}:{s2:05.2f}', lonb, (-latb if sg2 == '-' else latb)
    if style == 'hms':
        sg, d, m, s, lonb = sexa(lon, True)
        sg2, d2, m2, s2, latb = sexa(lat, False)
        return f'{d}h{m:02d}m{s:05.2f}s', f'{sg2}{d2}d{m2:02d}m{s2:05.2f}s', lonb, (-latb if sg2 == '-' else latb)

@st.composite
def sky_size(draw):
    v = draw(st.floats(0.01, 500).map(lambda x: round(x, 3)))
    unit = draw(st.sampled_from(['"', "'", 'd', 'r', '']))
    deg = {'"': v / 3600, "'": v / 60, 'd': v, 'r': math.degrees(v), '': v}[unit]
    return fmt(v) + unit, deg

@st.composite
def region_stmt(draw, frame):
    """frame: canonical frame name or 'image'.  returns (text, [expected dict...])"""
    shape = draw(st.sampled_from(['circle', 'ellipse', 'box', 'annulus', 'polygon', 'line', 'point', 'text']))
    pixel = frame == 'image'
    equatorial = frame in ('icrs', 'fk5', 'fk4')
    def coord():
        if pixel:
            x, y = draw(num), draw(num)
            suf = draw(st.sampled_from(['', '', 'i']))
            return fmt(x) + suf, fmt(y) + suf, x - 1, y - 1
        return draw(lon_lat(equatorial))
    def size():
        if pixel:
            v = draw(num); suf = draw(st.sampled_from(['', '', 'i']))
            return fmt(v) + suf, v
        return draw(sky_size())
    def angle():
        v = draw(st.floats(-360, 360).map(lambda x: round(x, 3)))
        return fmt(v) if v >= 0 else '-' + fmt(-v), v
    params = []; exp = {'shape': shape}
    c = coord(); params += [c[0], c[1]]; exp['c'] = (c[2], c[3])
    multi = 1
    if shape == 'circle':
        s = size(); params.append(s[0]); exp['sizes'] = [s[1]]
    elif shape in ('ellipse', 'box'):
        npairs = draw(st.sampled_from([1, 1, 2, 3]))
        base = [size() for _ in range(2)]
        sz = [base[0], base[1]]
        for k in range(1, npairs):
            f = 1 + k
            # multiples of the first pair so that ordering inner<outer holds
            sz += [(fmt(round(base[0][1] if pixel else 0, 4)), 0), (fmt(0), 0)]
        if npairs > 1:
            # rebuild with explicit increasing numbers (pixel or sky in degrees with 'd' unit)
            vals = sorted(draw(st.lists(st.floats(0.01, 50).map(lambda x: round(x, 3)), min_size=2 * npairs, max_size=2 * npairs, unique=True)))
            a_list, b_list = vals[:npairs], vals[npairs:]
            sz = []
            for a, b in zip(a_list, b_list):
                if pixel: sz += [(fmt(a), a), (fmt(b), b)]
                else: sz += [(fmt(a) + '"', a / 3600), (fmt(b) + '"', b / 3600)]
        a = angle()
        params += [s[0] for s in sz] + [a[0]]
        k = 2.0 if shape == 'ellipse' else 1.0
        exp['sizes'] = [s[1] * k for s in sz]; exp['angle'] = a[1]; exp['npairs'] = npairs
    elif shape == 'annulus':
        n = draw(st.integers(2, 4))
        vals = sorted(draw(st.lists(st.floats(0.01, 50).map(lambda x: round(x, 3)), min_size=n, max_size=n, unique=True)))
        if pixel: sz = [(fmt(v), v) for v in vals]
        else: sz = [(fmt(v) + "'", v / 60) for v in vals]
        params += [s[0] for s in sz]; exp['sizes'] = [s[1] for s in sz]
    elif shape == 'polygon':
        n = draw(st.integers(2, 5)); pts = [exp['c']]
        for _ in range(n):
            c2 = coord(); params += [c2[0], c2[1]]; pts.append((c2[2], c2[3]))
        exp['pts'] = pts
    elif shape == 'line':
        c2 = coord(); params += [c2[0], c2[1]]; exp['c2'] = (c2[2], c2[3])
    sign = draw(st.sampled_from(['', '', '+', '-']))
    exp['include'] = 0 if sign == '-' else 1
    props = []
    txt = None
    if shape == 'text' or draw(st.booleans()):
        txt = draw(st.text(alphabet='abc XYZ;#=,.', min_size=1, max_size=8)).strip() or 'x'
        if txt.replace('.', '', 1).isdigit(): txt = 'n' + txt
        delim = draw(st.sampled_from(['{}', '""', "''"]))
        props.append(f'text={delim[0]}{txt}{delim[1]}')
    exp['text'] = txt
    if draw(st.booleans()):
        v = draw(st.sampled_from([0, 1])); props.append(f'select={v}'); exp['select'] = v
    if draw(st.booleans()):
        v = draw(st.sampled_from([0, 1])); props.append(f'include={v}'); exp['include'] = v
    style = draw(st.sampled_from(['paren', 'paren', 'space']))
    name = draw(st.sampled_from([shape, shape.upper(), shape.capitalize()]))
    if style == 'paren':
        body = f'{sign}{name}(' + draw(st.sampled_from([',', ', ', ' '])).join(params) + ')'
    else:
        body = f'{sign}{name} ' + ' '.join(params)
    if props:
        body += ' # ' + ' '.join(props)
    return body, exp

@st.composite
def ds9_file(draw):
    stmts = []  # (text, kind, payload)
    n = draw(st.integers(1, 10))
    frame = None; gl = {}
    out = []; expected = []; skipped = 0
    out.append('# Region file format: DS9 version 4.1')
    for _ in range(n):
        kind = draw(st.sampled_from(['frame', 'frame', 'region', 'region', 'region', 'global', 'unsup_shape', 'unsup_frame', 'comment']))
        if kind == 'frame':
            nm = draw(st.sampled_from(['image'] + list(SKY_FRAMES)))
            frame = 'image' if nm == 'image' else SKY_FRAMES[nm]
            out.append(draw(st.sampled_from([nm, nm.upper()])))
        elif kind == 'unsup_frame':
            out.append(draw(st.sampled_from(UNSUP_FRAMES))); frame = None; skipped += 1
        elif kind == 'unsup_shape':
            out.append(draw(st.sampled_from(UNSUP_SHAPES)) + '(1,2,3,4)'); skipped += 1
        elif kind == 'comment':
            out.append('# just a comment; with semicolon')
        elif kind == 'global':
            v = draw(st.sampled_from([0, 1])); gl['select'] = v
            out.append(f'global select={v} color=green')
        else:
            fr = frame if frame is not None else 'image'
            text, exp = draw(region_stmt(fr))
            out.append(text)
            if frame is None:
                skipped += 1
            else:
                exp['frame'] = frame
                if 'select' not in exp and 'select' in gl: exp['select'] = gl['select']
                expected.append(exp)
    # join with newline or semicolon (comments must end with newline)
    text = ''
    for line in out:
        sep = '\n' if line.startswith('#') or text.endswith('\n') is False and False else draw(st.sampled_from(['\n', '\n', ';']))
        text += line + ('\n' if line.startswith('#') else sep)
    return text, expected, skipped

def close(a, b, tol=1e-9):
    return abs(a - b) <= tol * max(1, abs(a), abs(b))

def lonlat(sc):
    return sc.spherical.lon.deg, sc.spherical.lat.deg

def compare(text, expected, regs):
    """expand expected to regions list & compare; return list of problems"""
    probs = []
    exp_regs = []
    for e in expected:
        sh = e['shape']
        if sh == 'annulus':
            for a, b in zip(e['sizes'][:-1], e['sizes'][1:]):
                exp_regs.append(dict(e, cls='CircleAnnulus', sizes=[a, b]))
        elif sh in ('ellipse', 'box') and e['npairs'] > 1:
            s = e['sizes']
            for k in range(e['npairs'] - 1):
                exp_regs.append(dict(e, cls=('EllipseAnnulus' if sh == 'ellipse' else 'RectangleAnnulus'), sizes=[s[2 * k], s[2 * k + 2], s[2 * k + 1], s[2 * k + 3]]))
        else:
            exp_regs.append(dict(e, cls={'circle': 'Circle', 'ellipse': 'Ellipse', 'box': 'Rectangle', 'polygon': 'Polygon', 'line': 'Line', 'point': 'Point', 'text': 'Text'}[sh]))
    if len(exp_regs) != len(regs):
        return [f'count expected {len(exp_regs)} got {len(regs)}']
    for e, r in zip(exp_regs, regs):
        name = type(r).__name__
        kind = 'Pixel' if e['frame'] == 'image' else 'Sky'
        if name != e['cls'] + kind + 'Region':
            probs.append(f'class {name} vs {e["cls"]}{kind}'); continue
        def pos(v):
            return (v.x, v.y) if kind == 'Pixel' else lonlat(v)
        if e['cls'] == 'Polygon':
            xs, ys = pos(r.vertices)
            for (ex, ey), x, y in zip(e['pts'], np.atleast_1d(xs), np.atleast_1d(ys)):
                if not (close(ex, x) and close(ey, y)): probs.append(f'vertex {ex},{ey} vs {x},{y}')
        else:
            c = r.start if e['cls'] == 'Line' else r.center
            x, y = pos(c)
            if not (close(e['c'][0], x) and close(e['c'][1], y)): probs.append(f'center {e["c"]} vs {(x, y)}')
            if kind == 'Sky' and c.frame.name != e['frame']: probs.append(f'frame {c.frame.name} vs {e["frame"]}')
        if e['cls'] == 'Line':
            x, y = pos(r.end)
            if not (close(e['c2'][0], x) and close(e['c2'][1], y)): probs.append('line end')
        names = {'Circle': ['radius'], 'Ellipse': ['width', 'height'], 'Rectangle': ['width', 'height'], 'CircleAnnulus': ['inner_radius', 'outer_radius'],
                 'EllipseAnnulus': ['inner_width', 'outer_width', 'inner_height', 'outer_height'], 'RectangleAnnulus': ['inner_width', 'outer_width', 'inner_height', 'outer_height']}.get(e['cls'], [])
        for nm, ev in zip(names, e.get('sizes', [])):
            v = getattr(r, nm); v = v if kind == 'Pixel' else v.to_value(u.deg)
            if not close(ev, v): probs.append(f'{nm} {ev} vs {v}')
        if 'angle' in e and hasattr(r, 'angle') and not close(e['angle'], r.angle.to_value(u.deg)): probs.append('angle')
        if r.meta.get('include') != e['include']: probs.append(f'include {r.meta.get("include")} vs {e["include"]}')
        t = r.text if e['cls'] == 'Text' else r.meta.get('text')
        if e['cls'] == 'Text' and e['text'] is None: pass
        elif t != e['text']: probs.append(f'text {t!r} vs {e["text"]!r}')
        if 'select' in e and r.meta.get('select') != e['select']: probs.append('select precedence')
    return probs

buckets = collections.Counter(); ex = {}; N = [0]; nreg = [0]

@seed(int(sys.argv[1]) if len(sys.argv) > 1 else 1)
@settings(max_examples=int(sys.argv[2]) if len(sys.argv) > 2 else 500, deadline=None, database=None, suppress_health_check=list(HealthCheck))
@given(ds9_file())
def run(case):
    text, expected, skipped = case
    N[0] += 1
    with warnings.catch_warnings(record=True) as w:
        warnings.simplefilter('always')
        try:
            regs = Regions.parse(text, format='ds9')
        except Exception as e:
            k = ('EXC', type(e).__name__, str(e)[:50]); buckets[k] += 1; ex.setdefault(k, text); return
    nreg[0] += len(regs)
    for p in compare(text, expected, list(regs)):
        k = p.split(' ')[0]; buckets[k] += 1; ex.setdefault(k, (p, text))
    if skipped and not w: buckets['nowarn'] += 1

run()
print('files', N[0], 'regions', nreg[0], dict(buckets))
for k, v in list(ex.items())[:8]: print(k, '::', v)
