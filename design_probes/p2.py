import numpy as np, astropy.units as u, warnings
from astropy.coordinates import SkyCoord
from regions import *
warnings.simplefilter('ignore')
def rt(regs, **kw):
    s = Regions(regs).serialize(format='ds9', **kw)
    print(s)
    try:
        out = Regions.parse(s, format='ds9'); print('  ->', out, [dict(r.meta) for r in out])
    except Exception as e: print('  PARSE EXC', type(e).__name__, e)
    return s
c = CirclePixelRegion(PixCoord(1,2), 3, meta={'include': False})
rt([c])
c = CirclePixelRegion(PixCoord(1,2), 3, meta={'include': 0})
rt([c])
c2 = CirclePixelRegion(PixCoord(1,2), 3, meta={'include': 0, 'text':'007'}, visual={'color':'red','linewidth':2})
c3 = CirclePixelRegion(PixCoord(5,2), 4, meta={'text':'a;b # c=d'}, visual={'color':'red','linewidth':2})
rt([c2,c3])
# compound
try: rt([c, c & c3, c3])
except Exception as e: print('COMPOUND EXC', type(e).__name__, e)
# unsupported frame
sk = CircleSkyRegion(SkyCoord(10,20,unit='deg',frame='supergalactic'), 3*u.arcsec)
try: rt([c3, sk])
except Exception as e: print('FRAME EXC', type(e).__name__, e)
# tiny sky size
sk = CircleSkyRegion(SkyCoord(10,20,unit='deg',frame='fk5'), 0.01*u.arcsec)
try: rt([sk], precision=3)
except Exception as e: print('EXC', type(e).__name__, e)
e = EllipseSkyRegion(SkyCoord(10,20,unit='deg',frame='galactic'), 3*u.arcsec, 2*u.arcmin, 1*u.rad)
rt([e, sk])
