import numpy as np, astropy.units as u
import matplotlib; matplotlib.use('Agg')
from regions import *
rng=np.random.default_rng(0)
def path_of(p):
    return p.get_patch_transform().transform_path(p.get_path()) if not p.__class__.__name__=='PathPatch' else p.get_path()
regs=[CirclePixelRegion(PixCoord(3,4),2.5), EllipsePixelRegion(PixCoord(3,4),6,2,33*u.deg), RectanglePixelRegion(PixCoord(3,4),6,2,-50*u.deg),
      PolygonPixelRegion(PixCoord([0,5,2,6],[0,1,4,6])), RegularPolygonPixelRegion(PixCoord(3,4),5,3,10*u.deg),
      CircleAnnulusPixelRegion(PixCoord(3,4),1,3), EllipseAnnulusPixelRegion(PixCoord(3,4),2,5,1,3,40*u.deg), RectangleAnnulusPixelRegion(PixCoord(3,4),2,5,1,3,40*u.deg)]
origin=(1.5,-2)
for r in regs:
    p=r.as_artist(origin=origin); path=path_of(p)
    pts=rng.uniform(-3,10,(4000,2))
    inside=path.contains_points(pts-np.array(origin))
    ref=r.contains(PixCoord(pts[:,0],pts[:,1]))
    dis=np.sum(inside!=ref)
    polys=path.to_polygons()
    areas=[0.5*np.sum(q[:-1,0]*q[1:,1]-q[1:,0]*q[:-1,1]) for q in polys]
    print(type(r).__name__, type(p).__name__, 'disagree',dis,'/4000', 'subpath signed areas',np.round(areas,3), 'region area', round(r.area,3))
pt=PointPixelRegion(PixCoord(3,4)).as_artist(origin=origin); print(pt.get_xydata())
tx=TextPixelRegion(PixCoord(3,4),'hi').as_artist(origin=origin); print(tx.get_position(), tx.get_text())
ln=LinePixelRegion(PixCoord(3,4),PixCoord(7,9)).as_artist(origin=origin); P=path_of(ln); print(type(ln).__name__, P.vertices.round(3).tolist())
c=CirclePixelRegion(PixCoord(3,4),2.5, visual={'color':'red','linewidth':3}); a=c.as_artist(edgecolor='blue', lw=1); print(a.get_edgecolor(), a.get_linewidth(), a.get_fill())
