import warnings
from regions import Regions
tests = {
'sexa_fk5': 'fk5\ncircle(12:30:45.5,+41:16:09,30")',
'sexa_gal': 'galactic\ncircle(12:30:45.5,+41:16:09,30")',
'hms': 'icrs;circle(12h30m45.5s,+41d16m09s,0.5\')',
'dsuffix': 'fk4; ellipse 10.5d 20d 1d 2d 30',
'rsuffix': 'fk5; box(1.2r,0.3r,0.01r,0.02r,1r)',
'nopar': 'image\ncircle 100 200 20',
'isuffix': 'image\ncircle(100i,200i,20i)',
'minus': 'image\n-circle(100,200,20)',
'plus_inc0': 'image\n+circle(100,200,20) # include=0',
'global_override': 'global color=green width=1 select=1\nimage\ncircle(1,2,3) # color=red\ncircle(4,5,6)',
'multiann': 'image\nannulus(10,20,1,2,3,4)',
'multiell': 'image\nellipse(10,20,1,2,3,4,5,6,30)',
'multibox': 'image\nbox(10,20,1,2,3,4,30)',
'unsup_shape': 'image\nvector(1,2,3,4)\ncircle(1,2,3)\npanda(1,2,0,360,4,5,6,1)\nruler(1,2,3,4)',
'unsup_frame': 'image\ncircle(1,2,3)\nphysical\ncircle(4,5,6)\nfk5\ncircle(7,8,9")',
'noframe': 'circle(1,2,3)\nimage\ncircle(1,2,3)',
'textform': 'image\n# text(10,20) text={Hello; World}\ntext(30,40) # text="Hi" textangle=30',
'quotes': "image\ncircle(1,2,3) # text='single q' tag={a} tag={b}",
'composite': 'image\n# composite(10,20,30) || composite=1 color=red\ncircle(1,2,3) ||\nbox(4,5,6,7,0)\ncircle(9,9,9)',
'semis': 'image;circle(1,2,3);fk5;circle(10,20,3");',
'upper': 'IMAGE\nCIRCLE(1,2,3) # COLOR=RED',
'polysky': 'fk5\npolygon(12:00:00,+10:00:00,12:01:00,+10:00:00,12:01:00,+10:10:00)',
'linesky': 'galactic\nline(10:00:00,+10:00:00,11:00:00,+11:00:00)',
'angleunits': 'image\nellipse(1,2,3,4,0.5r)',
'pixsizeunits': 'image\ncircle(1,2,3")',
'skypos_i': 'fk5\ncircle(1i,2i,3")',
'j2000': 'J2000\npoint(10,20) # point=diamond 12',
'ecl': 'ecliptic\npoint(10:20:30,20)',
'wcs': 'wcsa\ncircle(1,2,3)\nimage\ncircle(1,2,3)',
}
for k,s in tests.items():
    with warnings.catch_warnings(record=True) as w:
        warnings.simplefilter('always')
        try:
            out=Regions.parse(s,format='ds9')
            print(k,'=>',len(out),'regions; warnings',len(w))
            for r in out: print('    ',repr(r)[:170].replace('\n',' '), dict(r.meta), {a:b for a,b in r.visual.items() if a!='default_style'})
        except Exception as e: print(k,'EXC',type(e).__name__,e)
