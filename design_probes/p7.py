import numpy as np, astropy.units as u, time, math
from regions import *
rng=np.random.default_rng(3)
def rand_region(kind, dyadic=False):
    q = (lambda v: round(v*64)/64) if dyadic else (lambda v: v)
    cx,cy = q(rng.uniform(-20,20)), q(rng.uniform(-20,20))
    w,h = q(10**rng.uniform(-1,1.5))+1/64, q(10**rng.uniform(-1,1.5))+1/64
    ang = rng.uniform(-720,720)*u.deg
    if kind=='circle': return CirclePixelRegion(PixCoord(cx,cy), w)
    if kind=='ellipse': return EllipsePixelRegion(PixCoord(cx,cy), w,h,ang)
    if kind=='rect': return RectanglePixelRegion(PixCoord(cx,cy), w,h,ang)
    if kind=='poly':
        n=rng.integers(3,8); return PolygonPixelRegion(PixCoord([q(v) for v in cx+rng.uniform(-w,w,n)],[q(v) for v in cy+rng.uniform(-h,h,n)]))
    if kind=='regpoly': return RegularPolygonPixelRegion(PixCoord(cx,cy), int(rng.integers(3,9)), w, ang)
    if kind=='cann': return CircleAnnulusPixelRegion(PixCoord(cx,cy), w, w+h)
    if kind=='eann': return EllipseAnnulusPixelRegion(PixCoord(cx,cy), w, w+1, h, h+2, ang)
    if kind=='rann': return RectangleAnnulusPixelRegion(PixCoord(cx,cy), w, w+1, h, h+2, ang)
kinds=['circle','ellipse','rect','poly','regpoly','cann','eann','rann']
# C02: center mask == contains at pixel centres
bad=0;n=0
for k in range(1600):
    reg=rand_region(kinds[k%8]); m=reg.to_mask('center'); bb=m.bbox
    assert m.data.shape==bb.shape and bb==reg.bounding_box
    yy,xx=np.mgrid[bb.iymin:bb.iymax, bb.ixmin:bb.ixmax]
    c=reg.contains(PixCoord(xx,yy))
    if not np.array_equal(c.astype(float), m.data.astype(float)):
        bad+=1; d=np.argwhere(c.astype(float)!=m.data); 
        if bad<4: print('C02 mismatch', repr(reg), len(d))
    n+=1
    # padding ring outside bbox: no members at pixel centers
    yy,xx=np.mgrid[bb.iymin-1:bb.iymax+1, bb.ixmin-1:bb.ixmax+1]
    c=reg.contains(PixCoord(xx,yy)); c[1:-1,1:-1]=False
    if c.any(): print('member pixel centre outside bbox', repr(reg))
print('C02 center',n,'bad',bad)
# C15 translation
bad=0
for k in range(800):
    reg=rand_region(kinds[k%8], dyadic=True)
    tx,ty=int(rng.integers(-10000,10000)),int(rng.integers(-10000,10000))
    if hasattr(reg,'center'): reg2=reg.copy(center=PixCoord(reg.center.x+tx, reg.center.y+ty))
    else: reg2=reg.copy(vertices=PixCoord(reg.vertices.x+tx, reg.vertices.y+ty))
    for mode,sp in [('center',1),('subpixels',3),('subpixels',5),('exact',1)]:
        try: m1=reg.to_mask(mode,sp); m2=reg2.to_mask(mode,sp)
        except NotImplementedError: continue
        b1,b2=m1.bbox,m2.bbox
        ok = (b2.ixmin-b1.ixmin==tx and b2.ixmax-b1.ixmax==tx and b2.iymin-b1.iymin==ty and b2.iymax-b1.iymax==ty)
        if not ok: print('bbox shift', repr(reg), tx,ty,b1,b2); bad+=1; continue
        if not np.array_equal(m1.data,m2.data):
            bad+=1
            if bad<6: print('mask differs', mode,sp, repr(reg), tx,ty, np.abs(m1.data-m2.data).max())
print('C15 translation bad',bad)
