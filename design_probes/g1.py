import os, gzip, shutil, warnings, numpy as np, astropy.units as u
from astropy.coordinates import SkyCoord
from regions import *
warnings.simplefilter('ignore')
D='/tmp/probe/c14'
def state(p):
    if os.path.islink(p): return ('link', os.readlink(p), open(p,'rb').read() if os.path.exists(p) else None)
    if os.path.exists(p): return ('file', open(p,'rb').read())
    return ('absent',)
good=[CirclePixelRegion(PixCoord(1,2),3), EllipsePixelRegion(PixCoord(1,2),3,4,5*u.deg), PointPixelRegion(PixCoord(3,3))]
comp=good[0]&good[1]
sky=CircleSkyRegion(SkyCoord(1,2,unit='deg',frame='supergalactic'),3*u.arcsec)
ext={'ds9':'.reg','crtf':'.crtf','fits':'.fits'}
kw={'ds9':{}, 'crtf':{'coordsys':'image'}, 'fits':{}}
bad_kw={'ds9':{'precision':'x'}, 'crtf':{'coordsys':'nonsense'}, 'fits':{'header':'notaheader'}}
for fmt in ext:
  for dest in ('absent','file','symlink','dangling'):
    for ow in (False,True):
      for inj in ('none','compound0','compound1','compound2','sky1','badopt'):
        for api in ('Regions','Region'):
            shutil.rmtree(D); os.makedirs(D)
            p=os.path.join(D,'out'+ext[fmt]); tgt=os.path.join(D,'target.dat')
            if dest=='file': open(p,'wb').write(b'SENTINEL')
            if dest=='symlink': open(tgt,'wb').write(b'SENTINEL'); os.symlink(tgt,p)
            if dest=='dangling': os.symlink(tgt,p)
            regs=list(good); k=dict(kw[fmt])
            if inj.startswith('compound'): regs.insert(int(inj[-1]),comp)
            if inj=='sky1': regs.insert(1,sky)
            if inj=='badopt': k=dict(bad_kw[fmt])
            before=(state(p),state(tgt)); listing=sorted(os.listdir(D))
            try:
                if api=='Regions': Regions(regs).write(p,overwrite=ow,**k)
                else:
                    if inj not in ('none','badopt'): continue
                    regs[0].write(p,overwrite=ow,**k)
                res='ok'
            except Exception as e: res=type(e).__name__
            after=(state(p),state(tgt))
            if res!='ok' and (after!=before or sorted(os.listdir(D))!=listing): print('DEST CHANGED AFTER FAILURE',fmt,dest,ow,inj,api,res,before,after)
            if dest in ('file','symlink') and not ow and res!='OSError': print('NOT REFUSED',fmt,dest,ow,inj,api,res)
            if dest=='dangling' and not ow and res!='OSError': print('dangling not refused',fmt,ow,inj,api,res, after[1][0])
            if res=='ok' and inj=='none' and api=='Regions':
                # readback
                for mode in ('fmt','ext','renamed','gz','gzrenamed'):
                    try:
                        q=p
                        if mode in ('renamed','gzrenamed','gz'):
                            q=os.path.join(D,'copy.dat' if mode=='renamed' else ('copy'+ext[fmt]+'.gz' if mode=='gz' else 'copygz.dat'))
                            if mode=='renamed': shutil.copy(p,q)
                            else:
                                with open(p,'rb') as f, gzip.open(q,'wb') as g: g.write(f.read())
                        r=Regions.read(q, format=fmt) if mode=='fmt' else Regions.read(q)
                        ser=Regions(regs).serialize(format=fmt,**k); ref=Regions.parse(ser,format=fmt)
                        if len(r)!=len(ref) or any(a!=b for a,b in zip(r,ref)): print('READBACK DIFF',fmt,mode)
                    except Exception as e: print('READBACK EXC',fmt,dest,mode,type(e).__name__,str(e)[:80])
            if res not in ('ok','OSError') : pass
print('done')
