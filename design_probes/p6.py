import sys; sys.path.insert(0,'/tmp/probe/deps')
import numpy as np, astropy.units as u, time, itertools
from regions import *
from ref_area import ellipse_pixel_area, mp
mp.mp.dps = 30
bad=[]; n=0; t=time.time()
vals=[0,0.25,0.5,1.0]
sizes=[0.25,0.5,1,1.5,2,2.5,3,5]
angs=[0,30,45,90,135,180,270,360]
for cx,cy in itertools.product(vals,vals):
  for a in sizes:
    for b in sizes:
      for ang in angs:
        if a==b and ang!=0: continue
        if a==b: reg=CirclePixelRegion(PixCoord(cx,cy),a); regs=[('c',reg)]
        else: regs=[]
        regs.append(('e',EllipsePixelRegion(PixCoord(cx,cy),2*a,2*b,ang*u.deg)))
        for kind,reg in regs:
            m=reg.to_mask(mode='exact'); d=m.data; bb=m.bbox; n+=1
            if not np.all(np.isfinite(d)) or d.min()<0 or d.max()>1+1e-12:
                bad.append(('range',repr(reg),float(d.min()),float(d.max()))); continue
            # total area
            tot=d.sum(); exp=np.pi*a*b
            if abs(tot-exp)>1e-8*max(1,exp): 
                # find worst pixel
                worst=0;w=None
                for j in range(d.shape[0]):
                    for i in range(d.shape[1]):
                        ref=ellipse_pixel_area(cx,cy,a,b,np.deg2rad(ang),bb.ixmin+i,bb.iymin+j)
                        dd=abs(float(ref)-d[j,i])
                        if dd>worst: worst,w=dd,(bb.ixmin+i,bb.iymin+j,float(ref),float(d[j,i]))
                bad.append(('sum',repr(reg),tot-exp,worst,w))
print('n',n,'bad',len(bad),'time',time.time()-t)
import collections; print(collections.Counter((b[0], b[1].split("(")[0]) for b in bad)); print([b for b in bad if "Circle" in b[1]][:5])
