import numpy as np, astropy.units as u, warnings, collections
from astropy.coordinates import SkyCoord, Angle
from regions import *
warnings.simplefilter('ignore')
c=PixCoord(3.5,4.25); sc=SkyCoord(10,20,unit='deg')
mk={
 'CirclePixelRegion':lambda:CirclePixelRegion(c,2),'EllipsePixelRegion':lambda:EllipsePixelRegion(c,2,3,10*u.deg),'RectanglePixelRegion':lambda:RectanglePixelRegion(c,2,3,10*u.deg),
 'PolygonPixelRegion':lambda:PolygonPixelRegion(PixCoord([1,2,3.],[1,5,2.])),'RegularPolygonPixelRegion':lambda:RegularPolygonPixelRegion(c,5,2,10*u.deg),
 'CircleAnnulusPixelRegion':lambda:CircleAnnulusPixelRegion(c,2,3),'EllipseAnnulusPixelRegion':lambda:EllipseAnnulusPixelRegion(c,2,3,4,5,10*u.deg),
 'PointPixelRegion':lambda:PointPixelRegion(c),'LinePixelRegion':lambda:LinePixelRegion(c,PixCoord(5,6)),'TextPixelRegion':lambda:TextPixelRegion(c,'t'),
 'CircleSkyRegion':lambda:CircleSkyRegion(sc,2*u.arcsec),'EllipseSkyRegion':lambda:EllipseSkyRegion(sc,2*u.arcsec,3*u.arcsec,10*u.deg),'PolygonSkyRegion':lambda:PolygonSkyRegion(SkyCoord([1,2,3],[1,5,2],unit='deg')),
 'LineSkyRegion':lambda:LineSkyRegion(sc,SkyCoord(11,20,unit='deg')),'CircleAnnulusSkyRegion':lambda:CircleAnnulusSkyRegion(sc,2*u.arcsec,3*u.arcsec),'RectangleAnnulusSkyRegion':lambda:RectangleAnnulusSkyRegion(sc,2*u.arcsec,3*u.arcsec,4*u.arcsec,5*u.arcsec,10*u.deg)}
bad_size_pix=[0,-1,float('nan'),float('inf'),-float('inf'),'3',None,[1],np.array(2.0),np.array([2.0]),2*u.pix,2*u.deg,1+2j]
bad_size_sky=[0*u.deg,-1*u.deg,np.nan*u.deg,np.inf*u.deg,'3',None,[1]*u.deg,np.array([2.0])*u.deg,2*u.m,2,2.0,2*u.pix,2*u.dimensionless_unscaled]
bad_angle=['3',None,2,2.0,2*u.m,[1,2]*u.deg,np.array([1.0])*u.deg,2*u.pix]
bad_pixcoord=[None,(1,2),[1,2],sc,PixCoord([1,2],[3,4]),PixCoord(np.zeros((2,2)),np.zeros((2,2))),1.0,'x']
bad_pixverts=[None,PixCoord(1,2),PixCoord(np.zeros((2,2)),np.zeros((2,2))),sc,[1,2]]
bad_skycoord=[None,(1,2),c,SkyCoord([1,2],[3,4],unit='deg'),1.0,'x']
bad_skyverts=[None,sc,SkyCoord(np.zeros((2,2)),np.zeros((2,2)),unit='deg'),c]
acc=collections.defaultdict(list)
for name,f in mk.items():
    r=f(); sky='Sky' in name
    for p in r._params:
        if p in ('text',): continue
        if p in ('center','start','end'): cat=bad_skycoord if sky else bad_pixcoord
        elif p=='vertices': cat=bad_skyverts if sky else bad_pixverts
        elif p=='angle': cat=bad_angle
        elif p=='nvertices': cat=[0,-1,float('nan'),'3',None,[1]]
        else: cat=bad_size_sky if sky else bad_size_pix
        for v in cat:
            r=f(); before={q:getattr(r,q) for q in r._params}
            try:
                setattr(r,p,v); acc[(name,p)].append(('ACCEPTED',repr(v)[:30]))
            except (ValueError,TypeError,KeyError) as e:
                after={q:getattr(r,q) for q in r._params}
                if any(before[q] is not after[q] for q in before): acc[(name,p)].append(('STATE CHANGED',repr(v)[:30]))
            except Exception as e:
                acc[(name,p)].append(('OTHER-EXC '+type(e).__name__,repr(v)[:30]))
        # delete
        try: delattr(r,p); acc[(name,p)].append(('DELETED',))
        except AttributeError: pass
    for attr in ('meta','visual'):
        for v in [None, 3, 'x', [('text','a')], {'badkey':1}]:
            r=f()
            try: setattr(r,attr,v); acc[(name,attr)].append(('ACCEPTED',repr(v)))
            except (ValueError,TypeError,KeyError): pass
            except Exception as e: acc[(name,attr)].append(('OTHER-EXC '+type(e).__name__,repr(v)))
        try: delattr(f(),attr); acc[(name,attr)].append(('DELETED',))
        except AttributeError: pass
        except Exception as e: acc[(name,attr)].append(('DEL OTHER',type(e).__name__))
summary=collections.Counter()
for k,v in acc.items():
    for item in v: summary[(k[1] if k[1] in('meta','visual','angle','vertices','center','start','end','nvertices') else ('skysize' if 'Sky' in k[0] else 'pixsize'),)+item]+=1
for k,v in sorted(summary.items(), key=lambda kv: str(kv[0])): print(k,v)
