import numpy as np, astropy.units as u, collections, math
import matplotlib; matplotlib.use('Agg')
from matplotlib.path import Path
from regions import *
rng=np.random.default_rng(2)
def data_path(p):
    return p.get_path() if type(p).__name__=='PathPatch' else p.get_patch_transform().transform_path(p.get_path())
def flatten(path, nseg=64):
    """-> list of closed polygons (arrays Nx2)"""
    polys=[]; cur=[]; verts=path.vertices; codes=path.codes if path.codes is not None else [Path.MOVETO]+[Path.LINETO]*(len(verts)-1)
    i=0; n=len(verts)
    while i<n:
        c=codes[i]
        if c==Path.MOVETO:
            if len(cur)>1: polys.append(np.array(cur))
            cur=[verts[i]]; i+=1
        elif c==Path.LINETO: cur.append(verts[i]); i+=1
        elif c==Path.CURVE3:
            p0=cur[-1]; p1,p2=verts[i],verts[i+1]; t=np.linspace(0,1,nseg+1)[1:,None]
            cur.extend((1-t)**2*p0+2*(1-t)*t*p1+t**2*p2); i+=2
        elif c==Path.CURVE4:
            p0=cur[-1]; p1,p2,p3=verts[i],verts[i+1],verts[i+2]; t=np.linspace(0,1,nseg+1)[1:,None]
            cur.extend((1-t)**3*p0+3*(1-t)**2*t*p1+3*(1-t)*t**2*p2+t**3*p3); i+=3
        elif c==Path.CLOSEPOLY:
            if len(cur)>1: polys.append(np.array(cur)); 
            cur=[]; i+=1
        else: i+=1
    if len(cur)>1: polys.append(np.array(cur))
    return polys
def winding(polys, pts):
    w=np.zeros(len(pts),int); x,y=pts[:,0],pts[:,1]
    for P in polys:
        Q=np.vstack([P,P[:1]])
        for (x0,y0),(x1,y1) in zip(Q[:-1],Q[1:]):
            up=(y0<=y)&(y1>y); dn=(y0>y)&(y1<=y)
            isleft=(x1-x0)*(y-y0)-(x-x0)*(y1-y0)
            w+= (up&(isleft>0)).astype(int); w-= (dn&(isleft<0)).astype(int)
    return w
def sarea(P): Q=np.vstack([P,P[:1]]); return 0.5*np.sum(Q[:-1,0]*Q[1:,1]-Q[1:,0]*Q[:-1,1])
bad=collections.Counter(); ex={}
for i in range(400):
    k=i%8; c=PixCoord(rng.uniform(-50,50),rng.uniform(-50,50)); w,h=10**rng.uniform(-1,2,2); ang=rng.uniform(-400,400)*u.deg
    reg=[CirclePixelRegion(c,w),EllipsePixelRegion(c,w,h,ang),RectanglePixelRegion(c,w,h,ang),PolygonPixelRegion(PixCoord(c.x+rng.uniform(-w,w,5),c.y+rng.uniform(-h,h,5))),
         RegularPolygonPixelRegion(c,int(rng.integers(3,9)),w,ang),CircleAnnulusPixelRegion(c,w,w*1.7),EllipseAnnulusPixelRegion(c,w,w*1.5,h,h*1.8,ang),RectangleAnnulusPixelRegion(c,w,w*1.5,h,h*1.8,ang)][k]
    origin=(rng.uniform(-20,20),rng.uniform(-20,20))
    patch=reg.as_artist(origin=origin); polys=flatten(data_path(patch))
    bb=reg.bounding_box; S=max(bb.shape)+2
    pts=np.column_stack([rng.uniform(bb.ixmin-2,bb.ixmax+2,600),rng.uniform(bb.iymin-2,bb.iymax+2,600)])
    inside=winding(polys,pts-np.array(origin))!=0
    ref=reg.contains(PixCoord(pts[:,0],pts[:,1]))
    # margin filter: exclude pts whose answer changes under +-0.3% scaling about centre (proxy for near-boundary)
    if hasattr(reg,'center'):
        cc=np.array([reg.center.x,reg.center.y]); 
        near=np.zeros(len(pts),bool)
        for f in (0.995,1.005):
            q=cc+(pts-cc)*f; near|= reg.contains(PixCoord(q[:,0],q[:,1]))!=ref
    else: near=np.zeros(len(pts),bool)
    dis=np.sum((inside!=ref)&~near)
    if dis: bad[type(reg).__name__]+=1; ex.setdefault(type(reg).__name__,(repr(reg),origin,int(dis)))
    if 'Annulus' in type(reg).__name__:
        ar=[sarea(P) for P in polys]
        if len(ar)!=2 or ar[0]*ar[1]>=0: bad['annulus-orientation']+=1
print(dict(bad)); print(ex)
