import numpy as np, astropy.units as u, warnings
from regions import *
warnings.simplefilter('ignore')
def rt(regs):
    try:
        t = Regions(regs).serialize(format='fits')
    except Exception as e:
        print('SER EXC', type(e).__name__, e); return
    print(t)
    try:
        out = Regions.parse(t, format='fits'); 
        for r in out: print('  ->', repr(r), dict(r.meta))
    except Exception as e: print('  PARSE EXC', type(e).__name__, e)
rt([PolygonPixelRegion(PixCoord([1,2,3],[3,4,9])), PolygonPixelRegion(PixCoord([1,2,3,4,5],[3,4,9,1,1]))])
rt([EllipsePixelRegion(PixCoord(1,2),3,4,10*u.deg, meta={'include':False})])
rt([CircleAnnulusPixelRegion(PixCoord(1,2),3,4, meta={'include':False})])
rt([RectanglePixelRegion(PixCoord(1,2),3,4,10*u.deg, meta={'include':0})])
rt([CirclePixelRegion(PixCoord(1,2),3, meta={'include':0,'component':5}), PointPixelRegion(PixCoord(3,3))])
rt([CirclePixelRegion(PixCoord(1,2),3), EllipsePixelRegion(PixCoord(1,2),3,4,1*u.rad)])
e = EllipsePixelRegion(PixCoord(1,2),np.float64(3),4,1*u.rad); rt([e]); print(e)
