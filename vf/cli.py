"""Entry point (kept separate so that vf.runner is imported exactly once:
running it as __main__ would give property modules a second copy of its
classes)."""
import sys

from vf.runner import main

if __name__ == '__main__':
    sys.exit(main())
