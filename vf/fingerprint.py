"""Deep structural fingerprints: canonical, interpreter-independent, JSON-able.

floats as float.hex, arrays as dtype/shape/sha1(bytes), Quantities with their
unit string, SkyCoords as frame name + frame attributes + lon/lat bytes, meta
and visual items with type tags, masks as data + box, artists as path
vertices/codes + resolved properties, tables as names/units/dtypes/bytes.
Never id(), repr() of floats or dict order.
"""
import hashlib
import operator

import numpy as np


def _h(b):
    return hashlib.sha1(b).hexdigest()[:20]


def fp(o):
    """Fingerprint of an arbitrary object handled by the library."""
    import astropy.units as u
    from astropy.coordinates import BaseCoordinateFrame, SkyCoord
    from astropy.table import Table
    if o is None or isinstance(o, (bool, str)):
        return [type(o).__name__, o]
    if isinstance(o, (int, np.integer)) and not isinstance(o, bool):
        return [type(o).__name__, int(o)]
    if isinstance(o, (float, np.floating)):
        return [type(o).__name__, float(o).hex()]
    if isinstance(o, complex):
        return ['complex', o.real.hex(), o.imag.hex()]
    if isinstance(o, np.bool_):
        return ['np.bool', bool(o)]
    if isinstance(o, u.Quantity):
        return [type(o).__name__, o.unit.to_string(), fp(np.asarray(o.value))]
    if isinstance(o, np.ndarray):
        if o.dtype == object:
            return ['nd-object', list(o.shape), [fp(v) for v in o.ravel()]]
        a = np.ascontiguousarray(o)
        return ['nd', a.dtype.str, list(a.shape), _h(a.tobytes())]
    if isinstance(o, SkyCoord):
        fr = o.frame
        attrs = sorted((k, str(getattr(fr, k))) for k in fr.frame_attributes)
        sph = o.spherical
        return ['SkyCoord', fr.name, attrs,
                fp(np.asarray(sph.lon.deg)), fp(np.asarray(sph.lat.deg))]
    if isinstance(o, BaseCoordinateFrame):
        return ['Frame', o.name,
                sorted((k, str(getattr(o, k))) for k in o.frame_attributes)]
    if isinstance(o, u.UnitBase):
        return ['Unit', o.to_string()]
    if isinstance(o, Table):
        cols = []
        for name in o.colnames:
            c = o[name]
            cols.append([name, str(c.unit), fp(np.asarray(c))])
        return ['Table', cols, sorted((str(k), fp(v))
                                      for k, v in o.meta.items())]
    if isinstance(o, dict):
        return [type(o).__name__,
                sorted(([str(k), fp(v)] for k, v in o.items()),
                       key=lambda kv: kv[0])]
    if isinstance(o, (list, tuple)):
        return [type(o).__name__, [fp(v) for v in o]]
    if isinstance(o, (set, frozenset)):
        return [type(o).__name__, sorted((fp(v) for v in o), key=repr)]
    if isinstance(o, slice):
        return ['slice', o.start, o.stop, o.step]
    cls = type(o).__name__
    mod = type(o).__module__ or ''
    if mod.startswith('regions'):
        if cls == 'PixCoord':
            return ['PixCoord', fp(o.x), fp(o.y)]
        if cls == 'RegionBoundingBox':
            return ['BBox', int(o.ixmin), int(o.ixmax), int(o.iymin),
                    int(o.iymax)]
        if cls == 'RegionMask':
            return ['Mask', fp(np.asarray(o.data)), fp(o.bbox)]
        if cls == 'Regions':
            return ['Regions', [fp(r) for r in o.regions]]
        if hasattr(o, '_params'):
            params = []
            for p in o._params:
                params.append([p, fp(getattr(o, p))])
            extra = []
            if cls == 'PolygonPixelRegion':
                extra = [['origin', fp(getattr(o, 'origin', None))]]
            if cls == 'RegularPolygonPixelRegion':
                # state DERIVED from the parameters: the vertices everything
                # is computed from, and the documented lengths / angles
                extra = [[k, fp(getattr(o, k, None))] for k in (
                    'vertices', 'side_length', 'inradius', 'perimeter',
                    'interior_angle', 'exterior_angle')]
            return ['Region', cls, params, extra, fp(o.meta), fp(o.visual)]
    if o in (operator.and_, operator.or_, operator.xor):
        return ['op', o.__name__]
    if mod.startswith('matplotlib'):
        return artist_fp(o)
    if callable(o):
        return ['callable', getattr(o, '__module__', ''),
                getattr(o, '__qualname__', repr(type(o)))]
    if isinstance(o, bytes):
        return ['bytes', _h(o)]
    return ['repr', cls, repr(o)]


def artist_fp(a):
    """Path geometry + the properties a caller can set."""
    import matplotlib.lines as mlines
    import matplotlib.patches as mpatches
    import matplotlib.text as mtext
    out = ['Artist', type(a).__name__]
    if isinstance(a, mpatches.Patch):
        path = a.get_path()
        tr = a.get_patch_transform()
        p = tr.transform_path(path)
        out += [fp(np.asarray(p.vertices, float)),
                fp(None if p.codes is None else np.asarray(p.codes)),
                fp(list(map(float, a.get_edgecolor()))),
                fp(list(map(float, a.get_facecolor()))),
                fp(float(a.get_linewidth())), fp(bool(a.get_fill())),
                fp(str(a.get_linestyle())), fp(a.get_label())]
    elif isinstance(a, mlines.Line2D):
        out += [fp(np.asarray(a.get_xydata(), float)), fp(str(a.get_marker())),
                fp(float(a.get_markersize())), fp(str(a.get_color())),
                fp(str(a.get_markeredgecolor())), fp(str(a.get_fillstyle()))]
    elif isinstance(a, mtext.Text):
        out += [fp(list(map(float, a.get_position()))), fp(a.get_text()),
                fp(float(a.get_rotation())), fp(str(a.get_color())),
                fp(float(a.get_fontsize()))]
    return out


def digest(o):
    import json
    return _h(json.dumps(fp(o), sort_keys=True, default=repr).encode())
