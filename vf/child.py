"""Fresh-interpreter worker: runs ONE job as the first library operation of a
new process (PYTHONHASHSEED chosen by the parent) and prints a JSON result.

    python -m vf.child < job.json      job = {"op": ..., "args": {...}}
"""
import json
import sys
import warnings


def run_job(job):
    from vf import ops
    return ops.run(job['op'], job['args'])


def main():
    warnings.simplefilter('ignore')
    job = json.load(sys.stdin)
    try:
        out = {'ok': True, 'result': run_job(job)}
    except Exception as e:   # noqa: BLE001
        out = {'ok': False, 'error': f'{type(e).__name__}: {e}'}
    sys.stdout.write(json.dumps(out, sort_keys=True, default=repr))


def spawn(job, hashseed=0, timeout=120):
    """Run *job* in a child interpreter; returns the decoded result dict."""
    import os
    import subprocess
    env = dict(os.environ, PYTHONHASHSEED=str(hashseed))
    r = subprocess.run([sys.executable, '-m', 'vf.child'],
                       input=json.dumps(job, default=repr), text=True,
                       stdout=subprocess.PIPE, stderr=subprocess.PIPE,
                       env=env, timeout=timeout)
    if r.returncode != 0 or not r.stdout:
        raise RuntimeError(f'child failed rc={r.returncode}: {r.stderr[-800:]}')
    return json.loads(r.stdout)


if __name__ == '__main__':
    main()
