"""Coverage-guided tier: libFuzzer (atheris) drives a relation's Hypothesis
strategy through ``fuzz_one_input``.

The oracle is the relation's own ``check`` - the same reference model /
round trip the random tier uses - so a finding here is a semantic mismatch,
not a crash.  libFuzzer mutates the byte string that Hypothesis decodes into
a spec; branch coverage of the instrumented ``regions`` sub-packages decides
which byte strings are kept and mutated further.

``atheris.Fuzz()`` never returns (libFuzzer ends the process itself, without
running ``atexit``), so every shard is a child interpreter that rewrites its
result file as it goes; the parent (``run_guided`` below, called from
``vf.runner.run_task``) collects it, minimises each failing spec with a
structure-blind reducer (delete list elements while the same finding key
reproduces) and hands the result back in the runner's usual shape.

Determinism: the starting corpus is a pure function of (VERIF_SEED, relation,
shard) and libFuzzer gets ``-seed`` from the same digest and a fixed
``-runs``; libFuzzer pins a campaign only approximately (see DESIGN.md), so
the reproducible unit is the saved failing spec, replayed without libFuzzer.
"""
import json
import os
import random
import shutil
import subprocess
import sys
import time

HERE = os.path.dirname(os.path.dirname(os.path.abspath(__file__)))
SUFFIX = '@guided'
MAX_FAILURES = 4


def available():
    try:
        import importlib.util
        return importlib.util.find_spec('atheris') is not None
    except Exception:   # noqa: BLE001
        return False


# ---------------------------------------------------------------------------
# parent side

def run_guided(prop, rel, tier, seed, shard, nshards, known_keys, scale):
    """Returns the same dict ``run_task`` returns."""
    from vf.runner import _task_seed
    name = rel.name + SUFFIX
    out = {'relation': name, 'shard': shard, 'error': None,
           'evaluations': 0, 'nt': [], 'nt_extra': 0, 'samples': [],
           'labels': {}, 'counters': {}, 'excluded': {}, 'failures': [],
           'budget_exhausted': False}
    if not available():
        out['counters'] = {'skipped_no_atheris': 1}
        return out
    nshard_cfg, runs = rel.guided[tier]
    runs = max(50, int(runs * scale))
    work = os.path.join(HERE, '.scratch', 'guided',
                        f'{prop}-{rel.name}-{tier}-{shard}-{os.getpid()}')
    shutil.rmtree(work, ignore_errors=True)
    corpus = os.path.join(work, 'corpus')
    os.makedirs(corpus)
    ts = _task_seed(seed, name, shard)
    rnd = random.Random(ts)            # (corpus only; no oracle depends on it)
    for i in range(48):
        with open(os.path.join(corpus, f's{i:02d}'), 'wb') as fh:
            fh.write(rnd.randbytes(rnd.choice([128, 512, 2048, 4096])))
    result = os.path.join(work, 'result.json')
    job = {'prop': prop, 'relation': rel.name, 'tier': tier, 'seed': seed,
           'shard': shard, 'nshards': nshards, 'known_keys': list(known_keys),
           'runs': runs, 'fuzz_seed': ts % (2 ** 31 - 2) + 1,
           'corpus': corpus, 'result': result,
           'modules': list(getattr(rel, 'guided_modules', ['regions.io']))}
    with open(os.path.join(work, 'job.json'), 'w') as fh:
        json.dump(job, fh)
    log = os.path.join(work, 'log.txt')
    budget = rel.budget_s.get(tier, 600)
    try:
        with open(log, 'wb') as lf:
            try:
                p = subprocess.run(
                    [sys.executable, '-m', 'vf.guided',
                     os.path.join(work, 'job.json')],
                    stdout=lf, stderr=subprocess.STDOUT, cwd=work,
                    timeout=budget, env=dict(os.environ))
                rc = p.returncode
            except subprocess.TimeoutExpired:
                rc = None
        tail = ''
        try:
            with open(log, 'rb') as lf:
                tail = lf.read()[-3000:].decode('utf-8', 'replace')
        except OSError:
            pass
        if os.path.exists(result):
            with open(result) as fh:
                got = json.load(fh)
            for k in ('evaluations', 'nt', 'samples', 'labels', 'counters',
                      'excluded', 'failures'):
                out[k] = got[k]
        if rc is None:
            out['budget_exhausted'] = True
        elif rc != 0:
            out['error'] = (f'guided child exited {rc}; log tail:\n'
                            + tail[-1500:])
            return out
        cov = _final_cov(tail)
        if cov:
            out['counters'].update(cov)
        # minimise what was found
        if out['failures']:
            import importlib
            mod = importlib.import_module(f'vf.props.{prop.lower()}')
            for f in out['failures']:
                f['spec'] = reduce_spec(mod, rel.name, f['spec'], f['key'],
                                        known_keys)
    finally:
        shutil.rmtree(work, ignore_errors=True)
    return out


def _final_cov(tail):
    import re
    m = None
    for m in re.finditer(r'cov: (\d+) ft: (\d+) corp: (\d+)', tail):
        pass
    if m is None:
        return {}
    return {'libfuzzer_cov_edges_summed_over_shards': int(m.group(1)),
            'libfuzzer_features_summed_over_shards': int(m.group(2)),
            'libfuzzer_corpus_summed_over_shards': int(m.group(3))}


def reduce_spec(mod, relname, spec, key, known_keys=(), max_evals=400):
    """Delete list elements anywhere in the spec while ``key`` reproduces."""
    from vf.runner import run_single

    def same(s):
        try:
            r = run_single(mod, relname, s)
        except Exception:   # noqa: BLE001 - a candidate the check cannot read
            return False
        return r is not None and r[0] == key

    def lists(node, path=()):
        if isinstance(node, list):
            yield path
            for i, v in enumerate(node):
                yield from lists(v, path + (i,))
        elif isinstance(node, dict):
            for k, v in node.items():
                yield from lists(v, path + (k,))

    def get(node, path):
        for p in path:
            node = node[p]
        return node

    evals = 0
    cur = json.loads(json.dumps(spec))
    if not same(cur):
        return spec
    changed = True
    while changed and evals < max_evals:
        changed = False
        for path in sorted(lists(cur), key=lambda p: (len(p), str(p))):
            try:
                lst = get(cur, path)
            except (KeyError, IndexError, TypeError):
                continue
            i = len(lst) - 1
            while i >= 0 and evals < max_evals:
                cand = json.loads(json.dumps(cur))
                del get(cand, path)[i]
                evals += 1
                if same(cand):
                    cur = cand
                    changed = True
                i -= 1
    return cur


# ---------------------------------------------------------------------------
# child side

def _child(jobfile):
    with open(jobfile) as fh:
        job = json.load(fh)
    import atheris
    import importlib
    import pkgutil
    with atheris.instrument_imports(include=job['modules'],
                                    enable_loader_override=False):
        import regions          # noqa: F401
        for m in job['modules']:
            pkg = importlib.import_module(m)
            if hasattr(pkg, '__path__'):
                for info in pkgutil.walk_packages(pkg.__path__, m + '.'):
                    if '.tests' in info.name:
                        continue
                    importlib.import_module(info.name)
    from hypothesis import HealthCheck, given, settings

    import vf.runner as R
    mod = importlib.import_module(f"vf.props.{job['prop'].lower()}")
    rel = next(r for r in mod.RELATIONS if r.name == job['relation'])
    # (finding keys carry the base relation name: a guided finding replays
    # through the ordinary relation)
    ctx = R.Ctx(job['prop'], job['relation'], job['tier'],
                job['seed'], job['shard'], job['nshards'],
                set(job['known_keys']))
    ctx.deadline = None
    suppressed = set()
    state = {'n': 0, 'invalid': 0, 't0': time.monotonic()}

    def dump():
        out = {'evaluations': ctx.evaluations, 'nt': sorted(ctx.nt),
               'samples': ctx.samples, 'labels': dict(ctx.labels),
               'counters': dict(ctx.counters, fuzz_runs=state['n']),
               'excluded': dict(ctx.excluded), 'failures': ctx.failures}
        tmp = job['result'] + '.tmp'
        with open(tmp, 'w') as fh:
            json.dump(out, fh)
        os.replace(tmp, job['result'])

    @settings(database=None, deadline=None,
              suppress_health_check=list(HealthCheck))
    @given(rel.strategy(job['tier']))
    def test(spec):
        try:
            R._guarded(rel, ctx, spec, suppressed)
        except R.Mismatch as m:
            if ctx.last_fail is not None and len(ctx.failures) < MAX_FAILURES:
                sp, key, msg = ctx.last_fail
                ctx.failures.append({'key': key, 'message': msg, 'spec': sp})
            suppressed.add(m.key)
            ctx.last_fail = None
            dump()

    fuzz_one = test.hypothesis.fuzz_one_input

    def one(data):
        state['n'] += 1
        fuzz_one(data)
        if state['n'] % 100 == 0 or state['n'] >= job['runs'] - 1:
            dump()

    dump()
    atheris.Setup([sys.argv[0], f"-runs={job['runs']}",
                   f"-seed={job['fuzz_seed']}", '-max_len=8192',
                   '-len_control=0', '-timeout=120', '-rss_limit_mb=4096',
                   '-print_final_stats=1', job['corpus']], one)
    atheris.Fuzz()


if __name__ == '__main__':
    _child(sys.argv[1])
