"""Named library operations on JSON specs with canonical JSON-able results.
Used by child interpreters (vf.child) and by the history machine (C13) so
that "the same operation" means the same thing in both places."""
import io
import os
import warnings

from vf import spec as S
from vf.fingerprint import fp


def build_list(specs):
    return [S.build(s) for s in specs]


def run(op, args):
    from regions import Regions
    with warnings.catch_warnings():
        warnings.simplefilter('ignore')
        if op == 'serialize':
            regs = Regions(build_list(args['regions']))
            out = regs.serialize(format=args['format'], **args.get('kwargs', {}))
            return out if isinstance(out, str) else fp(out)
        if op == 'parse':
            regs = Regions.parse(args['data'], format=args['format'])
            return [fp(r) for r in regs]
        if op == 'serialize_parse':
            regs = Regions(build_list(args['regions']))
            out = regs.serialize(format=args['format'], **args.get('kwargs', {}))
            back = Regions.parse(out, format=args['format'])
            return {'text': out if isinstance(out, str) else fp(out),
                    'regions': [fp(r) for r in back]}
        if op == 'region_op':
            from vf.histops import region_op
            return region_op(args)
    raise ValueError(f'unknown op {op}')


def parsed_independent(ctx, regs, reparse, tag):
    """Parsed regions are the caller's to edit: appending to the list-valued
    metadata (DS9 tags, CRTF range/corr, dashlists) of parsed regions must
    not show in what a later parse of the same text returns (C13: "parsing a
    text gives the same regions whatever was parsed before").  ``regs`` is
    edited - call this last.

    (Not asserted: that two regions of the SAME parse hold distinct list
    objects - the annuli a multi-radius line expands into share their tag
    list, and no listed property promises otherwise.)"""
    from vf.fingerprint import fp
    regs = list(regs)
    fps = [fp(r) for r in regs]
    edits = 0
    for r in regs:
        for d in (r.meta, r.visual):
            for v in list(d.values()):
                if isinstance(v, list) and 'EDITED' not in v:
                    v.append('EDITED')
                    edits += 1
    if not edits:
        return
    ctx.count('parsed_lists_edited', edits)
    again = [fp(r) for r in reparse()]
    ctx.check(again == fps,
              f'{tag} | parsing the same text again after a parsed region was '
              'edited gives different regions')
