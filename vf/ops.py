"""Named library operations on JSON specs with canonical JSON-able results.
Used by child interpreters (vf.child) and by the history machine (C13) so
that "the same operation" means the same thing in both places."""
import io
import os
import warnings

from vf import spec as S
from vf.fingerprint import fp


def build_list(specs):
    return [S.build(s) for s in specs]


def run(op, args):
    from regions import Regions
    with warnings.catch_warnings():
        warnings.simplefilter('ignore')
        if op == 'serialize':
            regs = Regions(build_list(args['regions']))
            out = regs.serialize(format=args['format'], **args.get('kwargs', {}))
            return out if isinstance(out, str) else fp(out)
        if op == 'parse':
            regs = Regions.parse(args['data'], format=args['format'])
            return [fp(r) for r in regs]
        if op == 'serialize_parse':
            regs = Regions(build_list(args['regions']))
            out = regs.serialize(format=args['format'], **args.get('kwargs', {}))
            back = Regions.parse(out, format=args['format'])
            return {'text': out if isinstance(out, str) else fp(out),
                    'regions': [fp(r) for r in back]}
        if op == 'region_op':
            from vf.histops import region_op
            return region_op(args)
    raise ValueError(f'unknown op {op}')
