"""JSON-able case specs <-> live objects (regions, coordinates, WCS).

A pixel-region spec:
  {"cls": "EllipsePixelRegion", "center": [x, y], "width": w, "height": h,
   "angle": [value, unit, "Quantity"|"Angle"], "meta": {...}, "visual": {...},
   "num": "float"|"int"|"np.float64"|"np.int64"}
Polygon:  "vertices": [[x...], [y...]], optional "origin": [x, y]
Compound: {"cls": "CompoundPixelRegion", "op": "and"|"or"|"xor", "r1": spec,
           "r2": spec, "via": "operator"|"method"|"ctor", "meta": {...}|None}
Sky specs use "center": {"frame": name, "lon": deg, "lat": deg} and sizes
[value, unit].
"""
import operator

import numpy as np

OPS = {'and': operator.and_, 'or': operator.or_, 'xor': operator.xor}
OP_NAMES = {v: k for k, v in OPS.items()}
OP_METHODS = {'and': 'intersection', 'or': 'union',
              'xor': 'symmetric_difference'}


def _u():
    import astropy.units as u
    return u


def num(v, kind):
    """Re-type a plain number the way the spec asks."""
    if kind in (None, 'float'):
        return float(v)
    if kind == 'int':
        return int(v) if float(v).is_integer() else float(v)
    if kind == 'np.float64':
        return np.float64(v)
    if kind == 'np.float32':
        f = np.float32(v)
        return f if float(f) == float(v) else np.float64(v)
    if kind == 'np.int64':
        return np.int64(v) if float(v).is_integer() else np.float64(v)
    raise ValueError(kind)


def angle(a):
    """[value, unit, kind] -> Quantity or Angle."""
    u = _u()
    if a is None:
        return None
    val, unit = a[0], a[1]
    kind = a[2] if len(a) > 2 else 'Quantity'
    if kind == 'Angle':
        from astropy.coordinates import Angle
        return Angle(val, unit)
    return u.Quantity(val, unit)


def angle_rad_reduced(a):
    """Reference value of an angle spec in radians, reduced in its OWN unit
    first (exact for deg/arcmin/arcsec/hourangle), so it is accurate even for
    huge magnitudes."""
    import math
    val, unit = float(a[0]), a[1]
    period = {'deg': 360.0, 'rad': None, 'arcmin': 21600.0,
              'arcsec': 1296000.0, 'hourangle': 24.0}[unit]
    if period is None:
        return math.remainder(val, 2 * math.pi)
    return math.remainder(val, period) / period * 2 * math.pi


def angle_rad_raw(a):
    """|angle| in radians without reduction (for error bounds)."""
    import math
    val, unit = float(a[0]), a[1]
    f = {'deg': math.pi / 180, 'rad': 1.0, 'arcmin': math.pi / 10800,
         'arcsec': math.pi / 648000, 'hourangle': math.pi / 12}[unit]
    return abs(val) * f


def pixcoord(c, kind=None):
    from regions import PixCoord
    return PixCoord(num(c[0], kind), num(c[1], kind))


def meta_objs(spec):
    from regions import RegionMeta, RegionVisual
    meta = spec.get('meta')
    visual = spec.get('visual')
    m = None if meta is None else RegionMeta(_detuple(meta))
    v = None if visual is None else RegionVisual(_detuple(visual))
    return m, v


def _untuple(v):
    """{'__tuple__': [...]} -> tuple, recursively (JSON has no tuples)."""
    if isinstance(v, dict) and '__tuple__' in v:
        return tuple(_untuple(x) for x in v['__tuple__'])
    if isinstance(v, dict) and '__quantity__' in v:
        return _u().Quantity(v['__quantity__'][0], v['__quantity__'][1])
    if isinstance(v, list):
        return [_untuple(x) for x in v]
    return v


def _detuple(d):
    import copy
    out = {}
    for k, v in d.items():
        out[k] = copy.deepcopy(_untuple(v))   # never share objects with the spec
    return out


PIXEL_SIMPLE = ('CirclePixelRegion', 'EllipsePixelRegion',
                'RectanglePixelRegion', 'PolygonPixelRegion',
                'RegularPolygonPixelRegion', 'CircleAnnulusPixelRegion',
                'EllipseAnnulusPixelRegion', 'RectangleAnnulusPixelRegion',
                'PointPixelRegion', 'LinePixelRegion', 'TextPixelRegion')


ASSIGNABLE = ('CirclePixelRegion', 'EllipsePixelRegion',
              'RectanglePixelRegion', 'PolygonPixelRegion',
              'RegularPolygonPixelRegion',
              'CircleAnnulusPixelRegion', 'EllipseAnnulusPixelRegion',
              'RectangleAnnulusPixelRegion', 'PointPixelRegion',
              'LinePixelRegion', 'TextPixelRegion')


def _decoy(spec):
    """A different valid spec of the same class (larger, shifted, turned)."""
    d = dict(spec)
    d.pop('build', None)
    for k in ('center', 'start', 'end'):
        if k in d:
            d[k] = [d[k][0] + 3.25, d[k][1] - 1.5]
    for k in ('radius', 'width', 'height', 'inner_radius', 'outer_radius',
              'inner_width', 'outer_width', 'inner_height', 'outer_height'):
        if k in d:
            d[k] = float(d[k]) * 1.75 + 0.5
    if 'nvertices' in d:
        d['nvertices'] = int(d['nvertices']) + 2
    if d.get('angle') is not None:
        d['angle'] = [d['angle'][0] + 0.3, d['angle'][1]] + list(d['angle'][2:])
    elif 'angle' in d:
        d['angle'] = [12.0, 'deg', 'Quantity']
    if 'vertices' in d:
        vx, vy = d['vertices']
        d['vertices'] = [[v * 1.5 + 2.0 for v in vx] + [vx[0] - 7.0],
                         [v * 0.5 - 1.0 for v in vy] + [vy[0] + 9.0]]
        d.pop('origin', None)
    if 'text' in d:
        d['text'] = d['text'] + ' (old)'
    d['meta'] = {'text': 'decoy'}
    d['visual'] = {'color': 'black'}
    return d


def _near_decoy(spec):
    """The same spec with coordinates moved by a relative 4e-6 (+2e-6) -
    'equal' for PixCoord.__eq__ - and the opposite include sense."""
    d = dict(spec)
    d['build'] = 'direct'
    d.pop('num', None)           # float coordinates: the move must survive

    def mv(t):
        return float(t) * (1 + 4e-6) + 2e-6
    for k in ('center', 'start', 'end'):
        if k in d:
            d[k] = [mv(d[k][0]), mv(d[k][1])]
    if 'vertices' in d:
        vx, vy = d['vertices']
        d['vertices'] = [[mv(t) for t in vx], [mv(t) for t in vy]]
        d.pop('origin', None)
    inc = (spec.get('meta') or {}).get('include', True)
    d['meta'] = {'include': not bool(inc), 'text': 'decoy'}
    d['visual'] = {'color': 'black'}
    return d


def _touch(obj):
    from regions import PixCoord
    try:
        obj.bounding_box
        bb = obj.bounding_box
        obj.contains(PixCoord(1.5, 2.5))
        obj.contains(PixCoord([0.0, 3.0], [1.0, 4.0]))
        repr(obj)
        str(obj)
        obj == obj
        if bb.shape[0] * bb.shape[1] <= 250000:
            for mode in ('center', 'exact', 'subpixels'):
                try:
                    obj.to_mask(mode, 2)
                except NotImplementedError:
                    pass
        obj.area
    except NotImplementedError:
        pass
    try:
        obj.as_artist()
    except Exception:   # noqa: BLE001 - plotting is optional here
        pass


def _assign_meta(comp, m, v):
    """A compound made by an operator / method that gets its own meta and
    visual afterwards, by ASSIGNMENT of new objects (after a first use)."""
    if m is None and v is None:
        return comp
    repr(comp)
    comp == comp
    try:
        comp.bounding_box
    except Exception:   # noqa: BLE001 - sky compounds have none
        pass
    if m is not None:
        comp.meta = m
    if v is not None:
        comp.visual = v
    return comp


def build(spec):
    """Spec -> region object (pixel or sky).  With spec['build'] == 'assign'
    the object is first constructed from a DIFFERENT valid spec of the same
    class and then every parameter, meta and visual is assigned: a region
    that was edited in place must behave like a freshly constructed one."""
    import regions
    cls = spec['cls']
    if cls.endswith('SkyRegion'):
        return build_sky(spec)
    if spec.get('build') == 'assign' and cls in ASSIGNABLE:
        target = build(dict(spec, build='direct'))
        obj = build(_decoy(spec))
        # use the object before editing it (read - mutate - read): anything
        # cached by the first reads must not survive the assignments
        _touch(obj)
        order = list(obj._params)
        # annuli: grow outer sizes first so that no intermediate state is
        # refused should cross-field validation ever be added
        order.sort(key=lambda p: (not p.startswith('outer'),))
        for p in order:
            setattr(obj, p, getattr(target, p))
        obj.meta = target.meta
        obj.visual = target.visual
        return obj
    if spec.get('build') == 'reuse' and cls in ASSIGNABLE:
        # the same object, USED, then edited only slightly: coordinates moved
        # by less than PixCoord.__eq__'s tolerance (rtol 1e-5) and the meta /
        # visual objects REPLACED (include sense flipped) - a cache keyed on
        # "parameters compare equal" or on the parameters alone stays stale
        target = build(dict(spec, build='direct'))
        obj = build(_near_decoy(spec))
        _touch(obj)
        for p in obj._params:
            if p in ('center', 'start', 'end', 'vertices'):
                setattr(obj, p, getattr(target, p))
        _touch(obj)
        obj.meta = target.meta
        obj.visual = target.visual
        return obj
    if (spec.get('build') == 'inplace' and cls in ASSIGNABLE
            and cls != 'RegularPolygonPixelRegion'):
        # (a regular polygon derives its vertices when a parameter is
        # ASSIGNED; writing into its centre object is not an assignment)
        # the same object, USED, then moved by writing INTO the coordinate
        # objects it holds (region.center.x = ..., vertices.x[...] = ...) and
        # into its meta dict: no attribute of the region is assigned, so a
        # cache dropped by the attribute descriptors stays stale
        target = build(dict(spec, build='direct'))
        d = dict(spec, build='direct')
        d.pop('num', None)
        for key in ('center', 'start', 'end'):
            if key in d:
                d[key] = [float(d[key][0]) + 3.25, float(d[key][1]) - 1.5]
        if 'vertices' in d:
            d['vertices'] = [[float(t) * 1.5 + 2.0 for t in d['vertices'][0]],
                             [float(t) * 0.5 - 1.0 for t in d['vertices'][1]]]
        inc = (spec.get('meta') or {}).get('include', True)
        d['meta'] = {'include': not bool(inc), 'text': 'decoy'}
        obj = build(d)
        _touch(obj)
        for p in obj._params:
            if p in ('center', 'start', 'end'):
                c, t = getattr(obj, p), getattr(target, p)
                c.x, c.y = t.x, t.y
            elif p == 'vertices':
                c, t = obj.vertices, target.vertices
                c.x[...] = t.x
                c.y[...] = t.y
        obj.meta.clear()
        obj.meta.update(target.meta)
        return obj
    k = spec.get('num')
    m, v = meta_objs(spec)
    kw = {}
    if m is not None:
        kw['meta'] = m
    if v is not None:
        kw['visual'] = v
    R = getattr(regions, cls)
    if cls == 'CompoundPixelRegion':
        r1, r2 = build(spec['r1']), build(spec['r2'])
        via = spec.get('via', 'operator')
        op = OPS[spec['op']]
        if via == 'ctor':
            return R(r1, r2, op, **kw)
        comp = (getattr(r1, OP_METHODS[spec['op']])(r2) if via == 'method'
                else op(r1, r2))
        return _assign_meta(comp, m, v)
    if cls == 'CirclePixelRegion':
        return R(pixcoord(spec['center'], k), num(spec['radius'], k), **kw)
    if cls in ('EllipsePixelRegion', 'RectanglePixelRegion'):
        if spec.get('angle') is None:
            return R(pixcoord(spec['center'], k), num(spec['width'], k),
                     num(spec['height'], k), **kw)
        return R(pixcoord(spec['center'], k), num(spec['width'], k),
                 num(spec['height'], k), angle(spec['angle']), **kw)
    if cls == 'PolygonPixelRegion':
        from regions import PixCoord
        vx, vy = spec['vertices']
        dt = int if k in ('int', 'np.int64') and all(
            float(t).is_integer() for t in list(vx) + list(vy)) else float
        verts = PixCoord(np.array(vx, dtype=dt), np.array(vy, dtype=dt))
        if spec.get('origin') is not None:
            kw['origin'] = pixcoord(spec['origin'], k)
        return R(verts, **kw)
    if cls == 'RegularPolygonPixelRegion':
        a = {} if spec.get('angle') is None else {'angle': angle(spec['angle'])}
        return R(pixcoord(spec['center'], k), int(spec['nvertices']),
                 num(spec['radius'], k), **a, **kw)
    if cls == 'CircleAnnulusPixelRegion':
        return R(pixcoord(spec['center'], k), num(spec['inner_radius'], k),
                 num(spec['outer_radius'], k), **kw)
    if cls in ('EllipseAnnulusPixelRegion', 'RectangleAnnulusPixelRegion'):
        a = {} if spec.get('angle') is None else {'angle': angle(spec['angle'])}
        return R(pixcoord(spec['center'], k), num(spec['inner_width'], k),
                 num(spec['outer_width'], k), num(spec['inner_height'], k),
                 num(spec['outer_height'], k), **a, **kw)
    if cls == 'PointPixelRegion':
        return R(pixcoord(spec['center'], k), **kw)
    if cls == 'LinePixelRegion':
        return R(pixcoord(spec['start'], k), pixcoord(spec['end'], k), **kw)
    if cls == 'TextPixelRegion':
        return R(pixcoord(spec['center'], k), spec['text'], **kw)
    raise ValueError(f'unknown class {cls}')


# ---------------------------------------------------------------- sky ------

FRAMES = {
    'icrs': ('icrs', {}),
    'fk5': ('fk5', {}),
    'fk4': ('fk4', {}),
    'galactic': ('galactic', {}),
    'ecliptic': ('barycentricmeanecliptic', {}),
    'barycentricmeanecliptic': ('barycentricmeanecliptic', {}),
    'supergalactic': ('supergalactic', {}),
    'geocentrictrueecliptic': ('geocentrictrueecliptic', {}),
    'geocentricmeanecliptic': ('geocentricmeanecliptic', {}),
    'fk5_j1975': ('fk5', {'equinox': 'J1975'}),
    'heliocentricmeanecliptic': ('heliocentricmeanecliptic', {}),
}


def skycoord(c):
    from astropy.coordinates import SkyCoord
    u = _u()
    frame, kw = FRAMES[c['frame']]
    lon, lat = c['lon'], c['lat']
    if isinstance(lon, (list, tuple)):
        lon, lat = np.array(lon, float), np.array(lat, float)
    return SkyCoord(lon * u.deg, lat * u.deg, frame=frame, **kw)


def qty(q):
    u = _u()
    return u.Quantity(q[0], q[1])


def build_sky(spec):
    import regions
    cls = spec['cls']
    m, v = meta_objs(spec)
    kw = {}
    if m is not None:
        kw['meta'] = m
    if v is not None:
        kw['visual'] = v
    R = getattr(regions, cls)
    if cls == 'CompoundSkyRegion':
        r1, r2 = build(spec['r1']), build(spec['r2'])
        via = spec.get('via', 'operator')
        op = OPS[spec['op']]
        if via == 'ctor':
            return R(r1, r2, op, **kw)
        comp = (getattr(r1, OP_METHODS[spec['op']])(r2) if via == 'method'
                else op(r1, r2))
        return _assign_meta(comp, m, v)
    if cls == 'CircleSkyRegion':
        return R(skycoord(spec['center']), qty(spec['radius']), **kw)
    if cls in ('EllipseSkyRegion', 'RectangleSkyRegion'):
        a = {} if spec.get('angle') is None else {'angle': angle(spec['angle'])}
        return R(skycoord(spec['center']), qty(spec['width']),
                 qty(spec['height']), **a, **kw)
    if cls == 'PolygonSkyRegion':
        return R(skycoord(spec['vertices']), **kw)
    if cls == 'CircleAnnulusSkyRegion':
        return R(skycoord(spec['center']), qty(spec['inner_radius']),
                 qty(spec['outer_radius']), **kw)
    if cls in ('EllipseAnnulusSkyRegion', 'RectangleAnnulusSkyRegion'):
        a = {} if spec.get('angle') is None else {'angle': angle(spec['angle'])}
        return R(skycoord(spec['center']), qty(spec['inner_width']),
                 qty(spec['outer_width']), qty(spec['inner_height']),
                 qty(spec['outer_height']), **a, **kw)
    if cls == 'PointSkyRegion':
        return R(skycoord(spec['center']), **kw)
    if cls == 'LineSkyRegion':
        return R(skycoord(spec['start']), skycoord(spec['end']), **kw)
    if cls == 'TextSkyRegion':
        return R(skycoord(spec['center']), spec['text'], **kw)
    raise ValueError(f'unknown class {cls}')


# ---------------------------------------------------------------- WCS ------

def build_wcs(w, warm=None):
    """{"proj": "TAN", "frame": "icrs", "crval": [lon, lat], "crpix": [x, y],
        "scale": deg/pix, "rot": deg, "parity": -1|+1}

    With w["past"] = {"drot", "fscale", "dcrval", "dcrpix"} the WCS OBJECT has
    a history: it is built in another state (rotated, rescaled, reference
    point moved), used - generically and by ``warm(wcs)`` if given - and then
    edited in place (cd, crval, crpix) into the state described by ``w``: the
    library must treat it like a freshly built WCS of that state."""
    past = w.get('past')
    if not past or w.get('example'):
        return _build_wcs(w)
    w1 = {k: v for k, v in w.items() if k != 'past'}
    w0 = dict(w1, rot=w['rot'] + past['drot'],
              scale=w['scale'] * 10.0 ** past['fscale'],
              crval=[(w['crval'][0] + past['dcrval'][0] * w['scale']) % 360.0,
                     max(-85.0, min(85.0, w['crval'][1]
                                    + past['dcrval'][1] * w['scale']))])
    if not w.get('sip'):
        w0['crpix'] = [w['crpix'][0] + past['dcrpix'][0],
                       w['crpix'][1] + past['dcrpix'][1]]
    wcs = _build_wcs(w0)
    target = _build_wcs(w1)
    try:
        _use_wcs(wcs, w0)
        if warm is not None:
            warm(wcs)
    except Exception:   # noqa: BLE001 - the earlier state is not judged
        pass
    wcs.wcs.cd = target.wcs.cd
    wcs.wcs.crval = target.wcs.crval
    wcs.wcs.crpix = target.wcs.crpix
    # wcslib writes the native-pole defaults it derived from the OLD crval
    # back into the struct: they belong to the state and are edited with it
    wcs.wcs.lonpole = target.wcs.lonpole
    wcs.wcs.latpole = target.wcs.latpole
    return wcs


def _use_wcs(wcs, w):
    """Generic traffic through a WCS object (conversions in both directions
    near its reference pixel)."""
    import astropy.units as u
    import regions as R
    x, y = w['crpix'][0] - 1 + 3.0, w['crpix'][1] - 1 - 2.0
    pc = R.PixCoord(x, y)
    sc = pc.to_sky(wcs)
    R.PixCoord.from_sky(sc, wcs)
    sky = R.EllipsePixelRegion(pc, 6.0, 3.0, 20 * u.deg).to_sky(wcs)
    sky.to_pixel(wcs)
    sky.contains(sc, wcs)
    R.CirclePixelRegion(pc, 2.0).to_sky(wcs).to_pixel(wcs)


def _build_wcs(w):
    import math

    from astropy.wcs import WCS
    if w.get('example'):
        from regions._utils.examples import make_example_dataset
        return make_example_dataset(data='simulated').wcs
    wcs = WCS(naxis=2)
    proj = w.get('proj', 'TAN')
    frame = w.get('frame', 'icrs')
    if frame == 'galactic':
        wcs.wcs.ctype = [f'GLON-{proj}', f'GLAT-{proj}']
    else:
        wcs.wcs.ctype = [f'RA---{proj}', f'DEC--{proj}']
        if frame == 'icrs':
            wcs.wcs.radesys = 'ICRS'
        elif frame == 'fk5':
            wcs.wcs.radesys = 'FK5'
            wcs.wcs.equinox = 2000.0
        elif frame == 'fk4':
            wcs.wcs.radesys = 'FK4'
            wcs.wcs.equinox = 1950.0
        elif frame == 'fk5_j1975':
            # a frame whose ATTRIBUTES are not the defaults
            wcs.wcs.radesys = 'FK5'
            wcs.wcs.equinox = 1975.0
        else:
            raise ValueError(frame)
    wcs.wcs.crval = list(w['crval'])
    wcs.wcs.crpix = list(w['crpix'])
    s = w['scale']
    rho = math.radians(w.get('rot', 0.0))
    p = w.get('parity', -1)
    c, sn = math.cos(rho), math.sin(rho)
    wcs.wcs.cd = [[s * c * p, -s * sn], [s * sn * p, s * c]]
    wcs.wcs.cunit = ['deg', 'deg']
    if w.get('sip'):
        # a mild SIP distortion (~0.5 px at 100 px from CRPIX): the only kind
        # of WCS for which mode='all' and mode='wcs' differ
        import numpy as np
        from astropy.wcs import Sip
        k = float(w['sip'])
        a = np.zeros((3, 3))
        b = np.zeros((3, 3))
        a[2, 0], a[1, 1], a[0, 2] = 5e-5 * k, -2e-5 * k, 1e-5 * k
        b[2, 0], b[1, 1], b[0, 2] = -1e-5 * k, 4e-5 * k, 3e-5 * k
        wcs.wcs.ctype = [c + '-SIP' for c in wcs.wcs.ctype]
        wcs.sip = Sip(a, b, None, None, wcs.wcs.crpix)
    wcs.wcs.set()
    return wcs
