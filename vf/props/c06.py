"""C06 - pixel<->sky conversion round-trips and membership is conversion-invariant."""
import copy
import math

import numpy as np
from hypothesis import strategies as st

from vf import spec as S
from vf.gen import queries as Q
from vf.gen import regions as G
from vf.gen import sky as GS
from vf.gen import wcs as W
from vf.props.c16 import META_POOL, VISUAL_POOL, metas
from vf.ref import geometry as ref
from vf.runner import Relation

LEVEL = 'exploration'
RULE = ('Hypothesis draws a region (11 pixel classes + compounds to depth 2 '
        'for pixel->sky->pixel; 10 sky classes + compounds for sky->pixel->sky) '
        'with populated meta/visual (incl. include flags and a numeric text '
        'rotation), placed within 300 px of CRPIX with sizes <= 200 px, and a '
        'WCS from the family TAN/SIN/CAR x any rotation x both parities x '
        '0.01"..0.1 deg per pixel x ICRS/FK5/FK4/Galactic. Oracles: round trip '
        '(class, centre/vertices to 1e-6 px relative, sizes 1e-6 relative, '
        'angle mod 360 to 1e-6 rad, meta/visual key by key, include flag); '
        'sky membership vs the pixel image for scalar and array positions '
        '(also with the positions expressed in another frame). Non-trivial: '
        'WCS rotation not a multiple of 90 deg or non-standard parity or '
        'non-ICRS frame, and (angle-bearing classes) region angle != 0.')
ASSUMPTIONS = [
    'region and positions lie within 45 deg of the projection centre '
    '(|dpix| x scale <= 45 deg); beyond it world_to_pixel returns NaN and the '
    'property restricts itself to "a few hundred pixels"',
    'a RegularPolygonPixelRegion converts to a PolygonSkyRegion and back to a '
    'PolygonPixelRegion (documented); its vertices are compared',
]


def _place(rs, cr, spread):
    """Move a pixel spec so that its first leaf sits near CRPIX."""
    lv = G.leaves(rs)
    c0 = ref.center_of(lv[0])
    dx, dy = cr[0] - 1 + spread[0] - c0[0], cr[1] - 1 + spread[1] - c0[1]

    def walk(s):
        s = dict(s)
        if s['cls'] == 'CompoundPixelRegion':
            s['r1'], s['r2'] = walk(s['r1']), walk(s['r2'])
            return s
        for k in ('center', 'start', 'end'):
            if k in s:
                s[k] = [s[k][0] + dx, s[k][1] + dy]
        if 'vertices' in s:
            s['vertices'] = [[v + dx for v in s['vertices'][0]],
                             [v + dy for v in s['vertices'][1]]]
            s.pop('origin', None)
        return s
    return walk(rs)


def _decorate(rs, meta, visual):
    rs = dict(rs)
    if rs['cls'].startswith('Compound'):
        rs['r1'] = _decorate(rs['r1'], meta, visual)
        rs['r2'] = _decorate(rs['r2'], {}, {})
        return rs
    rs['meta'] = dict(meta)
    v = dict(visual)
    if not rs['cls'].startswith('Text'):
        v.pop('rotation', None)
    elif len(meta) % 2 == 0:
        v.setdefault('rotation', 25.0)      # half of the text regions
    rs['visual'] = v
    return rs


def _max_offset(w):
    return min(300.0, 40.0 / w['scale'])


def _cmp_meta(ctx, tag, a, b, what):
    ka, kb = sorted(dict.keys(a)), sorted(dict.keys(b))
    ctx.check(ka == kb, f'{tag} | {what} keys change in the round trip',
              f'{ka} -> {kb}')
    for k in ka:
        va, vb = a[k], b[k]
        if k == 'rotation' and isinstance(va, (int, float)):
            d = math.remainder(float(vb) - float(va), 360.0)
            ctx.check(abs(d) <= 1e-4, f'{tag} | text rotation changes in the '
                      'round trip', f'{va!r} -> {vb!r}')
        else:
            ctx.check(va == vb and type(va) is type(vb),
                      f'{tag} | {what}[{k!r}] changes in the round trip',
                      f'{va!r} -> {vb!r}')


def _ang_close(a0, a1, tol=1e-6):
    d = math.remainder((a1 - a0).to_value('rad'), 2 * math.pi)
    return abs(d) <= tol


def cmp_pixel(ctx, tag, A, B):
    """Geometry of two pixel regions equal to 1e-6 relative."""
    import astropy.units as u
    from regions import PixCoord
    for p in A._params:
        va, vb = getattr(A, p), getattr(B, p)
        if isinstance(va, PixCoord):
            xa, ya = np.asarray(va.x, float), np.asarray(va.y, float)
            xb, yb = np.asarray(vb.x, float), np.asarray(vb.y, float)
            ctx.check(xa.shape == xb.shape, f'{tag} | {p} changes shape')
            tol = 1e-6 * np.maximum(1.0, np.maximum(np.abs(xa), np.abs(ya)))
            ctx.check(np.all(np.abs(xa - xb) <= tol)
                      and np.all(np.abs(ya - yb) <= tol),
                      f'{tag} | {p} moves in the round trip',
                      lambda: f'{(xa, ya)} -> {(xb, yb)}')
        elif isinstance(va, u.Quantity):
            ctx.check(_ang_close(va, vb), f'{tag} | {p} changes in the round '
                      'trip', f'{va!r} -> {vb!r}')
        elif p in ('region1', 'region2'):
            if type(va).__name__ == 'RegularPolygonPixelRegion':
                # documented: converts as a generic polygon
                ctx.check(type(vb).__name__ == 'PolygonPixelRegion',
                          f'{tag} | {p} changes class')
                va = va.to_polygon()
            else:
                ctx.check(type(va) is type(vb), f'{tag} | {p} changes class')
            cmp_pixel(ctx, tag + '.' + p, va, vb)
            _cmp_meta(ctx, tag + '.' + p, va.meta, vb.meta, 'meta')
            _cmp_meta(ctx, tag + '.' + p, va.visual, vb.visual, 'visual')
        elif p == 'operator':
            ctx.check(va is vb, f'{tag} | operator changes')
        elif isinstance(va, str):
            ctx.check(va == vb, f'{tag} | {p} changes', f'{va!r} -> {vb!r}')
        else:
            ctx.check(abs(float(vb) - float(va)) <= 1e-6 * abs(float(va)),
                      f'{tag} | {p} changes in the round trip',
                      f'{va!r} -> {vb!r}')


class PixSkyPix(Relation):
    name = 'C06.pix_sky_pix'
    examples = {'quick': 250, 'thorough': 3000}
    shards = {'quick': 8, 'thorough': 16}

    def strategy(self, tier):
        sz = G.sizes(0.05, 200.0)
        leaf = G.simple_pixel(sz, cmode='near', meta=False)
        small = G.simple_pixel(G.sizes(0.5, 50), 'near', meta=False)
        off = st.floats(-1, 1)
        return st.fixed_dictionaries({
            'wcs': W.wcs_specs(),
            'off': st.tuples(off, off),
            'meta': metas(META_POOL),
            'visual': metas(VISUAL_POOL + [('rotation', 25.0)]),
            'cmeta': st.sampled_from([None, None, {'include': False},
                                      {'text': 'cmp'}]),
            'region': st.one_of(leaf, leaf, leaf,
                                G.compound(small, max_depth=2,
                                           with_meta=False)),
        })

    def check(self, sp, ctx):
        w = sp['wcs']
        lim = _max_offset(w)
        rs = _decorate(sp['region'], sp['meta'], sp['visual'])
        if rs['cls'] == 'CompoundPixelRegion' and sp['cmeta'] is not None:
            rs['meta'] = sp['cmeta']
            if rs.get('via') != 'ctor':
                rs['via'] = 'operator'   # then meta assigned (vf.spec)
        rs = _place(rs, w['crpix'], (sp['off'][0] * lim, sp['off'][1] * lim))
        cls = rs['cls']
        # size precondition: the whole region within 45 deg of the centre
        _, size = _scale(rs)
        if size * w['scale'] > 20.0:
            ctx.count('outside_domain_size')
            return
        R = S.build(rs)
        # (a WCS object with a past converts this very region in its earlier
        # state before it is edited in place)
        wcs = S.build_wcs(w, warm=lambda x: R.to_sky(x).to_pixel(x))
        if w.get('past'):
            ctx.label('wcs:edited-in-place')
        from vf.fingerprint import fp
        fp_R = fp(R)
        sky = R.to_sky(wcs)
        fp_sky = fp(sky)
        back = sky.to_pixel(wcs)
        ctx.check(fp(R) == fp_R and fp(sky) == fp_sky,
                  f'{cls} | a conversion modifies the region it converts')
        ctx.label(cls, W.rot_family(w), 'proj:' + w['proj'],
                  'frame:' + w['frame'], 'parity:%d' % w['parity'])
        want_cls = ('PolygonPixelRegion' if cls == 'RegularPolygonPixelRegion'
                    else cls)
        want_sky = want_cls.replace('PixelRegion', 'SkyRegion')
        ctx.check(type(sky).__name__ == want_sky,
                  f'{cls} | to_sky gives {type(sky).__name__}')
        ctx.check(type(back).__name__ == want_cls,
                  f'{cls} | round trip gives {type(back).__name__}')
        tag = cls
        if cls == 'RegularPolygonPixelRegion':
            xa, ya = np.asarray(R.vertices.x), np.asarray(R.vertices.y)
            xb, yb = np.asarray(back.vertices.x), np.asarray(back.vertices.y)
            tol = 1e-6 * np.maximum(1.0, np.maximum(np.abs(xa), np.abs(ya)))
            ctx.check(xa.shape == xb.shape and np.all(np.abs(xa - xb) <= tol)
                      and np.all(np.abs(ya - yb) <= tol),
                      f'{tag} | vertices move in the round trip')
        else:
            cmp_pixel(ctx, tag, R, back)
        for obj, what in ((sky, 'to_sky'), (back, 'round trip')):
            if what == 'to_sky' and 'rotation' in R.visual:
                # the sky rotation is relative to the longitude axis
                a = dict(R.visual)
                b = dict(obj.visual)
                a.pop('rotation'), b.pop('rotation', None)
                _cmp_meta(ctx, f'{tag} {what}', a, b, 'visual')
            else:
                _cmp_meta(ctx, f'{tag} {what}', R.visual, obj.visual, 'visual')
            _cmp_meta(ctx, f'{tag} {what}', R.meta, obj.meta, 'meta')
            ctx.check(bool(obj.meta.get('include', True))
                      == bool(R.meta.get('include', True)),
                      f'{tag} {what} | include flag not preserved')
        # results do not share meta objects with the input
        ctx.check(sky.meta is not R.meta and back.meta is not R.meta,
                  f'{tag} | converted region shares the meta object')
        a = rs.get('angle')
        ang_nz = a is None or abs(math.remainder(
            a[0] / G.UNIT_PER_DEG[a[1]], 360.0)) > 1e-9
        ctx.nontrivial((W.rot_family(w) == 'wcsrot:generic' or w['parity'] == 1
                        or w['frame'] != 'icrs') and ang_nz)


def _scale(rs):
    from vf.props.c15 import _scale as sc
    return sc(rs)


# ------------------------------------------------------------ sky first ---

def _sky_in_wcs(ss, w, off_deg):
    """Re-centre a sky spec near CRVAL (offset in degrees, in frame given)."""
    lon0, lat0 = w['crval']

    def coord(c, dlon=0.0, dlat=0.0):
        lat = max(-88.0, min(88.0, lat0 + off_deg[1] + dlat))
        lon = (lon0 + (off_deg[0] + dlon) / max(math.cos(math.radians(lat)),
                                                0.05)) % 360.0
        if c['frame'] != w['frame']:
            # the position is chosen in the WCS frame and then expressed in
            # the region's own frame
            sc = S.skycoord({'frame': w['frame'], 'lon': lon, 'lat': lat}
                            ).transform_to(S.skycoord(
                                {'frame': c['frame'], 'lon': 0.0, 'lat': 0.0}
                            ).frame)
            lon, lat = float(sc.spherical.lon.deg), float(sc.spherical.lat.deg)
        return {'frame': c['frame'], 'lon': lon, 'lat': lat}

    def walk(s):
        s = dict(s)
        if s['cls'] == 'CompoundSkyRegion':
            s['r1'], s['r2'] = walk(s['r1']), walk(s['r2'])
            return s
        for k in ('center', 'start'):
            if k in s:
                s[k] = coord(s[k])
        if 'end' in s:
            s['end'] = coord(s['end'], 3 * w['scale'], 5 * w['scale'])
        if 'vertices' in s:
            v = s['vertices']
            n = len(v['lon'])
            sc = w['scale']
            lons, lats = [], []
            for i in range(n):
                th = 2 * math.pi * (i + 0.3) / n
                c = coord(v, 20 * sc * math.cos(th) * (1 + 0.3 * (i % 2)),
                          20 * sc * math.sin(th))
                lons.append(c['lon'])
                lats.append(c['lat'])
            s['vertices'] = {'frame': v['frame'], 'lon': lons, 'lat': lats}
        return s
    return walk(ss)


def _frame_of(ss):
    if ss['cls'] == 'CompoundSkyRegion':
        return _frame_of(ss['r1'])
    for k in ('center', 'start', 'vertices'):
        if k in ss:
            return ss[k]['frame']


def _set_frame(ss, frame):
    ss = copy.deepcopy(ss)

    def walk(s):
        if s['cls'] == 'CompoundSkyRegion':
            walk(s['r1'])
            walk(s['r2'])
            return
        for k in ('center', 'start', 'end', 'vertices'):
            if k in s:
                s[k]['frame'] = frame
    walk(ss)
    return ss


def _px_sizes(px):
    """Angular sizes in units of pixels: strategy of [value, 'arcsec'] given
    later scaling; here a pure number of pixels."""
    return st.one_of(st.floats(0.5, 200.0), st.floats(1, 30))


class SkyPixSky(Relation):
    name = 'C06.sky_pix_sky'
    examples = {'quick': 200, 'thorough': 2500}
    shards = {'quick': 8, 'thorough': 16}

    def strategy(self, tier):
        leaf = GS.simple_sky(GS.angsizes(0.05, 3600.0), meta=False)
        off = st.floats(-1, 1)
        return st.fixed_dictionaries({
            'wcs': W.wcs_specs(),
            'off': st.tuples(off, off),
            'same_frame': st.booleans(),
            'npx': st.floats(0.5, 150.0),
            'meta': metas(META_POOL),
            'visual': metas(VISUAL_POOL + [('rotation', -40.0)]),
            'region': st.one_of(leaf, leaf, leaf,
                                GS.compound(leaf, max_depth=2)),
            'query': st.lists(st.tuples(st.floats(-2, 2), st.floats(-2, 2)),
                              min_size=3, max_size=12),
            'qlayout': st.sampled_from(['scalar', '1d', '2d']),
            'qframe': st.sampled_from(['same', 'icrs', 'galactic', 'fk5']),
        })

    def check(self, sp, ctx):
        import astropy.units as u
        from astropy.coordinates import SkyCoord
        from regions import PixCoord
        w = sp['wcs']
        lim = _max_offset(w)
        ss = sp['region']
        if sp['same_frame']:
            ss = _set_frame(ss, w['frame'])
        ss = _sky_in_wcs(ss, w, (sp['off'][0] * lim * w['scale'],
                                 sp['off'][1] * lim * w['scale']))
        ss = _rescale_sky(ss, sp['npx'] * w['scale'] * 3600.0)
        ss = _decorate_sky(ss, sp['meta'], sp['visual'])
        cls = ss['cls']
        Sreg = S.build(ss)

        def warm(x):
            Sreg.to_pixel(x).to_sky(x)
            Sreg.contains(_first_sky_center(Sreg), x)
        wcs = S.build_wcs(w, warm=warm)
        if w.get('past'):
            ctx.label('wcs:edited-in-place')
        from vf.fingerprint import fp
        fp_S = fp(Sreg)
        c0 = [float(v) for v in wcs.world_to_pixel(_first_sky_center(Sreg))]
        if not (np.isfinite(c0[0]) and np.isfinite(c0[1])) or max(
                abs(c0[0] - w['crpix'][0]), abs(c0[1] - w['crpix'][1])) > 1.5 * lim + 50:
            ctx.count('outside_domain_far_from_crpix')
            return
        pix = Sreg.to_pixel(wcs)
        c0 = _first_center(pix)
        if not (np.isfinite(c0[0]) and np.isfinite(c0[1])) or max(
                abs(c0[0] - w['crpix'][0]), abs(c0[1] - w['crpix'][1])) > 1.5 * lim + 50:
            # frame conversion can move the region away from the WCS centre
            ctx.count('outside_domain_far_from_crpix')
            return
        fp_pix = fp(pix)
        back = pix.to_sky(wcs)
        ctx.check(fp(Sreg) == fp_S and fp(pix) == fp_pix,
                  f'{cls} | a conversion modifies the region it converts')
        ctx.label(cls, W.rot_family(w), 'frame:' + w['frame'],
                  'same_frame:%s' % sp['same_frame'])
        ctx.check(type(pix).__name__ == cls.replace('SkyRegion', 'PixelRegion'),
                  f'{cls} | to_pixel gives {type(pix).__name__}')
        ctx.check(type(back) is type(Sreg),
                  f'{cls} | round trip gives {type(back).__name__}')
        # pixel images agree whatever the frame of the sky region
        pix2 = back.to_pixel(wcs)
        cmp_pixel(ctx, cls + ' (pixel image)', pix, pix2)
        if sp['same_frame'] or _frame_of(ss) == w['frame']:
            self._cmp_sky(ctx, cls, Sreg, back, w)
        # positions are frame independent: whatever frame the round trip
        # answers in, its centres / end points / vertices are the SAME points
        # on the sky (separation() transforms between frames, attributes
        # such as the equinox included)
        # (between different frames astropy's own transformations do not
        # invert exactly: FK4 <-> FK5/ICRS returns 7e-9 deg off - measured;
        # the floor of 1e-7 deg applies there only)
        for nm, ca, cb in _sky_positions(Sreg, back):
            tol_deg = 1e-6 * (sp['npx'] + 2.0) * w['scale'] + (
                1e-9 if ca.is_equivalent_frame(cb) else 1e-7)
            sep = np.max(np.atleast_1d(ca.separation(cb).deg))
            ctx.check(sep <= tol_deg,
                      f'{cls} | {nm} is another point of the sky after the '
                      'round trip',
                      f'{sep * 3600:.3e} arcsec apart (allowed '
                      f'{tol_deg * 3600:.1e}); region frame {_frame_of(ss)}, '
                      f'WCS frame {w["frame"]}')
        same = sp['same_frame'] or _frame_of(ss) == w['frame']
        _cmp_meta(ctx, f'{cls} pixel image', pix.visual, pix2.visual, 'visual')
        for obj, what in ((pix, 'to_pixel'), (back, 'round trip')):
            a, b = dict(Sreg.visual), dict(obj.visual)
            if what == 'to_pixel' or not same:
                # a text rotation refers to the longitude axis of the frame
                a.pop('rotation', None), b.pop('rotation', None)
            _cmp_meta(ctx, f'{cls} {what}', a, b, 'visual')
            _cmp_meta(ctx, f'{cls} {what}', Sreg.meta, obj.meta, 'meta')
        # ---- membership
        scale = w['scale']
        size_deg = sp['npx'] * scale
        cc = _first_sky_center(Sreg).transform_to(_first_sky_center(back).frame)
        lon = cc.spherical.lon.deg + np.array([q[0] for q in sp['query']]) \
            * size_deg / max(math.cos(cc.spherical.lat.rad), 0.05)
        lat = np.clip(cc.spherical.lat.deg + np.array([q[1] for q in sp['query']])
                      * size_deg, -89.5, 89.5)
        pts = SkyCoord(lon * u.deg, lat * u.deg, frame=cc.frame)
        if sp['qframe'] != 'same':
            pts = pts.transform_to(sp['qframe'])
        if sp['qlayout'] == 'scalar':
            pts = pts[0]
        elif sp['qlayout'] == '2d':
            pts = pts[:2 * (len(pts) // 2)].reshape(2, -1)
        ans = Sreg.contains(pts, wcs)
        want = pix.contains(PixCoord.from_sky(pts, wcs))
        never = cls in ('PointSkyRegion', 'LineSkyRegion', 'TextSkyRegion')
        if False:
            pass
        else:
            ctx.check(np.shape(ans) == np.shape(pts),
                      f'{cls} | contains answer shape differs from the query',
                      f'{np.shape(ans)} vs {np.shape(pts)}')
            ctx.check(np.array_equal(np.asarray(ans), np.asarray(want)),
                      f'{cls} | sky membership differs from the pixel image\'s')
            # the same positions expressed in ICRS (positions within 1e-5 px
            # of the boundary are decided by the rounding of the transform)
            pp = PixCoord.from_sky(pts, wcs)
            definite = np.ones(np.shape(want), bool)
            for ddx, ddy in ((1e-5, 0), (-1e-5, 0), (0, 1e-5), (0, -1e-5),
                             (7e-6, 7e-6), (-7e-6, 7e-6), (7e-6, -7e-6),
                             (-7e-6, -7e-6)):
                definite &= (np.asarray(pix.contains(PixCoord(
                    np.asarray(pp.x) + ddx, np.asarray(pp.y) + ddy)))
                    == np.asarray(want))
            ans2 = Sreg.contains(pts.transform_to('icrs'), wcs)
            ctx.check(np.array_equal(np.asarray(ans2)[definite],
                                     np.asarray(ans)[definite]),
                      f'{cls} | membership depends on the frame the positions '
                      'are expressed in')
        ctx.check(fp(Sreg) == fp_S,
                  f'{cls} | asking for membership modifies the sky region')
        # ---- the answers follow the region as it is NOW: edit the same
        # object (include flag, then a size) and ask again with the same WCS
        # object; the pixel image of the edited region is the reference
        pp = PixCoord.from_sky(pts, wcs)
        edits = [('include', lambda r: r.meta.__setitem__(
            'include', not r.meta.get('include', True)))]
        for par, f in (('radius', 0.5), ('outer_radius', 1.5), ('width', 0.5),
                       ('outer_width', 1.5)):
            if par in getattr(Sreg, '_params', ()):
                edits.append((par, lambda r, par=par, f=f: setattr(
                    r, par, getattr(r, par) * f)))
                break
        for what, edit in edits:
            before = np.asarray(Sreg.contains(pts, wcs))
            edit(Sreg)
            now = np.asarray(Sreg.contains(pts, wcs))
            ref = np.asarray(Sreg.to_pixel(wcs).contains(pp))
            ctx.check(np.array_equal(now, ref),
                      f'{cls} | after editing {what} on the same object, sky '
                      'membership is not that of the current pixel image',
                      lambda: f'{now.tolist()} vs {ref.tolist()} (before the '
                              f'edit {before.tolist()})')
            ctx.count('edited_then_asked')
        ctx.nontrivial((W.rot_family(w) == 'wcsrot:generic' or w['parity'] == 1
                        or w['frame'] != 'icrs'))

    @staticmethod
    def _cmp_sky(ctx, tag, A, B, w):
        import astropy.units as u
        from astropy.coordinates import SkyCoord
        px = w['scale'] * 3600.0      # arcsec per pixel
        # a component given in another frame than the WCS's comes back in the
        # WCS frame; its sky angle refers to another north and (FK4: E-terms)
        # even its size differs at the 1e-6 level - the pixel images decide
        for p in A._params:
            va, vb = getattr(A, p), getattr(B, p)
            if isinstance(va, SkyCoord) and not va.frame.is_equivalent_frame(
                    vb.frame):
                ctx.count('component_in_foreign_frame')
                return
        for p in A._params:
            va, vb = getattr(A, p), getattr(B, p)
            if isinstance(va, SkyCoord):
                sep = va.separation(vb.transform_to(va.frame)).arcsec
                ctx.check(np.all(sep <= 1e-6 * px * np.maximum(
                    1.0, 300.0)), f'{tag} | {p} moves in the sky round trip',
                    lambda: f'max separation {np.max(sep)!r} arcsec')
            elif isinstance(va, u.Quantity) and p == 'angle':
                ctx.check(_ang_close(va, vb), f'{tag} | angle changes in the '
                          'sky round trip', f'{va!r} -> {vb!r}')
            elif isinstance(va, u.Quantity):
                r = (vb / va).to_value(u.dimensionless_unscaled)
                ctx.check(abs(r - 1) <= 1e-6, f'{tag} | {p} changes in the '
                          'sky round trip', f'{va!r} -> {vb!r}')
            elif p in ('region1', 'region2'):
                SkyPixSky._cmp_sky(ctx, tag + '.' + p, va, vb, w)
            elif p == 'operator':
                ctx.check(va is vb, f'{tag} | operator changes')
            elif isinstance(va, str):
                ctx.check(va == vb, f'{tag} | {p} changes')


def _first_center(pix):
    while type(pix).__name__.startswith('Compound'):
        pix = pix.region1
    for k in ('center', 'start'):
        if hasattr(pix, k):
            c = getattr(pix, k)
            return float(c.x), float(c.y)
    return float(pix.vertices.x[0]), float(pix.vertices.y[0])


def _sky_positions(a, b):
    """(name, SkyCoord of a, SkyCoord of b) for every position-valued
    parameter of two sky regions of the same structure."""
    out = []
    if type(a).__name__.startswith('Compound'):
        if type(b).__name__.startswith('Compound'):
            out += _sky_positions(a.region1, b.region1)
            out += _sky_positions(a.region2, b.region2)
        return out
    for k in ('center', 'start', 'end', 'vertices'):
        if hasattr(a, k) and hasattr(b, k) and k in a._params:
            va, vb = getattr(a, k), getattr(b, k)
            if np.shape(va) == np.shape(vb):
                out.append((k, va, vb))
    return out


def _first_sky_center(s):
    while type(s).__name__.startswith('Compound'):
        s = s.region1
    for k in ('center', 'start'):
        if hasattr(s, k):
            return getattr(s, k)
    # polygons: a point well inside (the vertices lie on a loop around it)
    from astropy.coordinates import SkyCoord
    import astropy.units as u
    v = s.vertices
    lon = v.spherical.lon.wrap_at(180 * u.deg).deg
    return SkyCoord(float(np.mean(lon)) * u.deg,
                    float(np.mean(v.spherical.lat.deg)) * u.deg, frame=v.frame)


def _rescale_sky(ss, size_arcsec):
    """Give every angular size about *size_arcsec* keeping ratios/units."""
    ss = copy.deepcopy(ss)

    def walk(s):
        if s['cls'] == 'CompoundSkyRegion':
            walk(s['r1'])
            walk(s['r2'])
            return
        keys = [k for k in ('radius', 'width', 'height', 'inner_radius',
                            'outer_radius', 'inner_width', 'outer_width',
                            'inner_height', 'outer_height') if k in s]
        if not keys:
            return
        cur = max(s[k][0] * GS.TO_ARCSEC[s[k][1]] for k in keys)
        lo = min(s[k][0] * GS.TO_ARCSEC[s[k][1]] for k in keys)
        # bound the aspect ratio so that the smallest size stays resolvable
        f = size_arcsec / cur
        for k in keys:
            v = s[k][0] * f
            arc = v * GS.TO_ARCSEC[s[k][1]]
            if arc < size_arcsec / 50.0:
                v = v * (size_arcsec / 50.0) / arc
            s[k] = [v, s[k][1]]
        # keep inner < outer after the clamp
        for a, b in (('inner_radius', 'outer_radius'),
                     ('inner_width', 'outer_width'),
                     ('inner_height', 'outer_height')):
            if a in s:
                ia = s[a][0] * GS.TO_ARCSEC[s[a][1]]
                ob = s[b][0] * GS.TO_ARCSEC[s[b][1]]
                if not ia * 1.2 < ob:
                    s[b] = [s[a][0] * 1.5 * GS.TO_ARCSEC[s[a][1]]
                            / GS.TO_ARCSEC[s[b][1]], s[b][1]]
    walk(ss)
    return ss


def _decorate_sky(ss, meta, visual):
    ss = dict(ss)
    if ss['cls'] == 'CompoundSkyRegion':
        ss['r1'] = _decorate_sky(ss['r1'], meta, visual)
        ss['r2'] = _decorate_sky(ss['r2'], {}, {})
        return ss
    ss['meta'] = dict(meta)
    v = dict(visual)
    if not ss['cls'].startswith('Text'):
        v.pop('rotation', None)
    elif len(meta) % 2 == 0:
        v.setdefault('rotation', 25.0)      # half of the text regions
    ss['visual'] = v
    return ss


RELATIONS = [PixSkyPix(), SkyPixSky()]
