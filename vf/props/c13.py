"""C13 - operations never mutate their inputs nor depend on call history."""
import json

from hypothesis import strategies as st
from hypothesis.stateful import RuleBasedStateMachine, rule

from vf import histops as H
from vf import spec as S
import numpy as np
from vf.fingerprint import fp
from vf.runner import Mismatch, Relation

LEVEL = 'exploration'
RULE = ('C13.history: rule-based state machine over a shared pool of live '
        'objects (10 pixel regions of all classes, 4 sky regions, 3 WCSs, '
        'scalar/1-D/2-D coordinates, float and int images, 3 Regions lists, '
        'DS9/CRTF text blobs); every step applies one operation of the public '
        'read-only/constructive API (contains, in, area, bounding_box, '
        'to_mask in every mode, mask cutout/multiply/get_values/to_image, '
        'to_sky, to_pixel, sky contains, rotate, copy, & | ^, as_artist, '
        'serialize of lists and single regions in ds9/crtf/fits, parse of '
        'text and tables, write+read in a scratch directory, list slicing) '
        'with Hypothesis-drawn arguments; after every step the deep '
        'fingerprint of the WHOLE pool and of the module-level parser tables '
        'must be unchanged - also after the arrays in the result (masks, '
        'membership arrays, weighted values, vertices of rotated/copied/'
        'converted polygons; not cutout(copy=False), a documented view) have '
        'been overwritten in place - and a memo keyed by (operation, arguments) asserts '
        'that repeating an operation at any later point gives the same result '
        'fingerprint. C13.fresh: a generated history is run in-process, then '
        'a target operation; its result must equal the result of the same '
        'operation run as the FIRST operation of a fresh interpreter (child '
        'process, PYTHONHASHSEED from {0,1,2,3}). Non-trivial: the history '
        'applies >= 2 different operations to the same object and repeats an '
        'operation after an intervening serialise/parse/write in some format.')
ASSUMPTIONS = [
    'the pool is a documented set of objects (vf/histops.py) or a member of '
    'its family (every region moved by a drawn multiple of 1/8 px, resized, '
    'turned, its angle re-expressed in deg/rad/arcmin/hourangle); Hypothesis '
    'draws the family member and the operation histories',
    'written FITS files are compared through the regions read back from '
    'them, DS9/CRTF files byte for byte',
]

OPS = ['contains', 'in', 'area', 'bbox', 'to_mask', 'mask_apply', 'mask_values',
       'to_sky',
       'to_pixel', 'to_pixel_far', 'sky_contains', 'rotate', 'copy', 'combine', 'artist',
       'serialize', 'serialize_one', 'parse', 'parse_table', 'write_read',
       'slice']
IO_OPS = ('serialize', 'serialize_one', 'parse', 'parse_table', 'write_read')


def op_strategy():
    # I/O operations (where module state and hashing can leak) weigh double
    return st.tuples(st.sampled_from(OPS + list(IO_OPS)), st.integers(0, 23),
                     st.integers(0, 5), st.integers(0, 5)).map(list)


def variant_strategy():
    """Which member of the pool family (vf/histops.vary) a history runs on;
    half of the histories use the documented pool itself."""
    return st.one_of(
        st.none(),
        st.fixed_dictionaries({
            'shift': st.tuples(st.integers(-12, 12), st.integers(-12, 12)).map(list),
            'scale': st.sampled_from([1.0, 0.5, 0.75, 1.25, 1.0 / 3]),
            'rot': st.sampled_from([0.0, 90.0, -33.0, 180.0, 400.0, 12.5]),
            'unit': st.sampled_from(['deg', 'rad', 'arcmin', 'hourangle'])}))


_CANARY_WCS = []


def _canaries():
    """Results of a few fixed operations on freshly built objects."""
    import astropy.units as u
    import warnings
    from astropy.coordinates import SkyCoord
    import regions as R
    if not _CANARY_WCS:
        _CANARY_WCS.append(S.build_wcs(H.WCS_SPECS[1]))
    w = _CANARY_WCS[0]
    sc = SkyCoord(30.002 * u.deg, 10.001 * u.deg, frame='fk5')
    ell = R.EllipseSkyRegion(sc, 30 * u.arcsec, 12 * u.arcsec, 25 * u.deg)
    pix = R.RectanglePixelRegion(R.PixCoord(9.5, 12.25), 7.0, 3.0, 20 * u.deg,
                                 meta=R.RegionMeta({'text': 'canary'}))
    with warnings.catch_warnings():
        warnings.simplefilter('ignore')
        out = [ell.to_pixel(w), pix.to_sky(w),
               R.Regions([pix, ell.to_pixel(w)]).serialize(format='ds9'),
               R.Regions([ell]).serialize(format='crtf'),
               list(R.Regions.parse('fk5\nellipse(2:00:00.5,+10:00:03,10",5",30)'
                                    ' # text={c}\n', format='ds9')),
               np.asarray(pix.to_mask('center').data),
               bool(ell.contains(sc, w))]
    return out


class Model:
    def __init__(self, ctx, variant=None):
        self.ctx = ctx
        self.variant = variant
        self.pool = H.make_pool(variant)
        self.pool_fp = fp(self._flat())
        self.tables = H.module_tables()
        self.memo = {}
        self.history = []
        # canaries: a fixed set of operations on FRESH objects (not the pool's)
        # whose results, taken before the history starts, must come out the
        # same after every step - "after any other sequence of library calls
        # in the same process"
        self.canary = fp(_canaries())

    def _flat(self):
        p = self.pool
        return [p['pix'], p['sky'], p['pix_shared'], p['coord'], p['image'],
                p['mask'],
                [lst.regions for lst in p['list']],
                [w.to_header().tostring() for w in p['wcs']],
                p['far'], [H.wcs_probe(w) for w in p['wcs']]]

    def step(self, op):
        ctx = self.ctx
        self.history.append(list(op))
        key = json.dumps(op)
        args, result = H.apply(self.pool, op)
        rfp = fp(result)
        # the caller edits what it was given (thresholding a mask, scaling
        # values in place): neither the pool nor any later result may notice
        ctx.count('results_edited', H.scribble(op, result))
        now = fp(self._flat())
        if now != self.pool_fp:
            what = _first_diff(now, self.pool_fp)
            self.pool_fp = now
            ctx.fail(f'{op[0]} | an operation modified an object of the pool',
                     what)
        can = fp(_canaries())
        if can != self.canary:
            what = _first_diff(can, self.canary)
            self.canary = can
            ctx.fail(f'{op[0]} | a fixed operation on fresh objects gives a '
                     'different result after this operation (call history)',
                     what)
        t = H.module_tables()
        if t != self.tables:
            self.tables = t
            ctx.fail(f'{op[0]} | a module-level table changed')
        if key in self.memo:
            if self.memo[key] != rfp:
                ctx.fail(f'{op[0]} | repeating the operation gives a '
                         'different result',
                         f'op {op}; history of {len(self.history)} steps')
        else:
            self.memo[key] = rfp
        ctx.count('steps')
        return rfp

    def nontrivial(self):
        seen = {}
        io_seen = False
        for op in self.history:
            k = json.dumps(op)
            if op[0] in IO_OPS:
                io_seen = True
            if k in seen and io_seen and seen[k] < len(self.history):
                return len({o[0] for o in self.history}) >= 2
            seen.setdefault(k, len(seen))
        return False


def _first_diff(a, b):
    if isinstance(a, list) and isinstance(b, list) and len(a) == len(b):
        for i, (x, y) in enumerate(zip(a, b)):
            if x != y:
                return f'[{i}]' + _first_diff(x, y)
    return f' {str(a)[:200]} vs {str(b)[:200]}'


class History(Relation):
    name = 'C13.history'
    stateful = True
    examples = {'quick': 40, 'thorough': 500}
    shards = {'quick': 8, 'thorough': 16}
    steps = {'quick': 30, 'thorough': 30}
    budget_s = {'quick': 200, 'thorough': 2400}

    def strategy(self, tier):
        return None

    def check(self, spec, ctx):
        m = Model(ctx, spec.get('variant'))
        for op in spec['history']:
            m.step(op)

    def machine(self, ctx):
        from hypothesis.stateful import initialize

        class M(RuleBasedStateMachine):
            def __init__(self):
                super().__init__()
                ctx.begin({'history': []})
                self.m = Model(ctx)

            @initialize(variant=variant_strategy())
            def choose_pool(self, variant):
                if variant is not None:
                    self.m = Model(ctx, variant)
                    ctx.label('pool:variant')
                else:
                    ctx.label('pool:documented')

            @rule(op=op_strategy())
            def do(self, op):
                try:
                    try:
                        self.m.step(op)
                    except Mismatch:
                        raise
                    except Exception as exc:   # noqa: BLE001
                        from vf.runner import classify_exception
                        sym = classify_exception(exc)
                        if sym is None:
                            raise
                        raise Mismatch(f'{ctx.rel} | {op[0]} | {sym}',
                                       str(exc)[:200]) from exc
                except Mismatch as e:
                    if e.key in ctx.suppressed or ctx.is_known(e.key):
                        return
                    ctx.last_fail = ({'variant': self.m.variant,
                                      'history': [list(o) for o in
                                                  self.m.history]},
                                     e.key, e.msg)
                    raise

            @rule(k=st.integers(0, 40))
            def repeat(self, k):
                if self.m.history:
                    self.do(self.m.history[k % len(self.m.history)])

            def teardown(self):
                ctx._spec = {'variant': self.m.variant,
                             'history': [list(o) for o in self.m.history]}
                ctx.nontrivial(self.m.nontrivial())
                ctx.label('len:%d' % (len(self.m.history) // 10 * 10))
                ctx.end()

        return M


class Fresh(Relation):
    """Result after a history == result as the first operation of a fresh
    interpreter."""
    name = 'C13.fresh'
    examples = {'quick': 4, 'thorough': 60}
    shards = {'quick': 8, 'thorough': 16}
    budget_s = {'quick': 200, 'thorough': 2400}

    def strategy(self, tier):
        return st.fixed_dictionaries({
            'history': st.lists(op_strategy(), min_size=3, max_size=20),
            # one serialisation whose OPTIONS vary (same objects, other
            # precision / fmt / radunit), one I/O operation, one free choice
            'targets': st.tuples(
                st.tuples(st.sampled_from(['serialize', 'serialize_one']),
                          st.sampled_from([2, 10, 11, 12, 13, 14, 0, 1, 3]),
                          st.integers(0, 5), st.integers(0, 5)).map(list),
                st.tuples(st.sampled_from(list(IO_OPS)), st.integers(0, 23),
                          st.integers(0, 5), st.integers(0, 5)).map(list),
                op_strategy()).map(list),
            'variant': variant_strategy(),
            'hashseed': st.integers(0, 3)})

    def check(self, sp, ctx):
        from vf.child import spawn
        m = Model(ctx, sp.get('variant'))
        for op in sp['history']:
            m.step(op)
        for op in sp['targets']:
            here = m.step(op)
            r = spawn({'op': 'region_op',
                       'args': {'op': op, 'variant': sp.get('variant')}},
                      hashseed=sp['hashseed'])
            ctx.check(r['ok'], f'{op[0]} | fails as the first operation of a '
                      'fresh interpreter', r.get('error', ''))
            ctx.check(r['result'] == json.loads(json.dumps(here)),
                      f'{op[0]} | result after a history differs from the '
                      'result in a fresh interpreter',
                      f'op {op}, PYTHONHASHSEED={sp["hashseed"]}')
            ctx.label('target:' + op[0])
        ctx.nontrivial(any(o[0] in IO_OPS for o in sp['history']))


RELATIONS = [History(), Fresh()]
