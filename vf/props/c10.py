"""C10 - DS9 text is read according to the DS9 region-file conventions."""
import warnings

import numpy as np
from hypothesis import strategies as st

from vf.ref import ds9ref as D
from vf.runner import Relation

LEVEL = 'exploration'
RULE = ('Hypothesis draws an ABSTRACT DS9 file from a grammar of the supported '
        'subset (header/comments/blank lines; frame statements incl. '
        'j2000/b1950 aliases in any case; unsupported frames physical, '
        'detector, linear, amplifier, tile, wcs, wcsa..; several global '
        'statements; region statements for the eight shapes x sign none/+/- '
        'and/or include= x coordinate notation decimal, d/r suffix, a:b:c, '
        'XhYmZs/XdYmZs, i suffix in image x size units " \' d r none i x '
        'parentheses-or-not x comma/blank separators x newline or ; '
        'terminator x property lists with {} "" \'\' text; multi-radius '
        'annulus/ellipse/box; the `# text(...)` form; composite groups; '
        'unsupported shapes; regions before any frame; unit/frame '
        'combinations the docs declare unsupported). It is rendered to text '
        'and walked by a reference interpreter that shares no code with '
        'regions.io. Compared: count, order, class, frame, geometry to 1e-9 '
        'relative, include, text, tags, flags, colour. Non-trivial: the file '
        'changes frame or has an unsupported statement between supported '
        'ones, and uses a non-decimal notation or a unit suffix.')
ASSUMPTIONS = [
    'where the DS9 reference manual is silent nothing is generated: include=0 '
    'in a global line (include=1, which DS9 itself writes, is generated), numbers with a bare trailing dot, text containing its '
    'own closing delimiter / braces / newlines, upper-case enumerated values, '
    'ellipse/box without an angle',
    'composite property lists carry flags and colours only (no text/tags)',
]

UNSUP_FRAMES = ['physical', 'detector', 'linear', 'amplifier', 'tile', 'wcs',
                'wcsa', 'wcsq', 'wcs0']
UNSUP_SHAPES = ['vector', 'ruler', 'compass', 'projection', 'panda', 'epanda',
                'bpanda']
COLORS = ['green', 'red', 'blue', 'cyan', 'magenta', 'yellow', 'white',
          '#ff00aa', '#0F0']
# (the last characters: outside ASCII, and characters that str.splitlines()
# - but not DS9 - takes for line ends)
TEXT_ALPHABET = ('abcXYZ 019;#=,.:+-_()/\'"' + '\u2605\u00e9'
                 + '\u2028\x0b\x0c\x85\u2029\x1c')


def dec(lo, hi, nd, allow_exp=True):
    """Decimal text of a number in [lo, hi] with up to nd decimals."""
    def mk(t):
        k, strip, exp = t
        s = f'{k / 10 ** nd:.{nd}f}'
        if strip:
            s = s.rstrip('0')
            if s.endswith('.'):
                s += '0' if strip == 1 else ''
                s = s.rstrip('.')
        if exp and allow_exp and not s.startswith('-') and float(s) != 0:
            v = float(s)
            s = f'{v:e}'
            m, e = s.split('e')
            m = m.rstrip('0').rstrip('.')
            s = f'{m}e{int(e)}'
            if float(s) != v:
                s = repr(v)
        return s
    return st.tuples(st.integers(int(lo * 10 ** nd), int(hi * 10 ** nd)),
                     st.sampled_from([0, 1, 2]),
                     st.sampled_from([False] * 7 + [True])).map(mk)


def sexa(max_d, signed):
    return st.fixed_dictionaries({
        'd': st.integers(0, max_d), 'm': st.integers(0, 59),
        's': st.tuples(st.integers(0, 5999), st.sampled_from([1, 2, 3])).map(
            lambda t: f'{t[0] / 100:0{3 + t[1]}.{t[1]}f}'),
        'neg': st.booleans() if signed else st.just(False),
        'plus': st.booleans() if signed else st.just(False)})


def lon_coord(frame):
    eq = frame in D.EQUATORIAL
    return st.one_of(
        dec(0, 359.99, 5).map(lambda t: {'style': 'dec', 't': t}),
        dec(0, 359.99, 5, False).map(lambda t: {'style': 'dsuf', 't': t}),
        dec(0, 6.28, 6, False).map(lambda t: {'style': 'rsuf', 't': t}),
        sexa(23 if eq else 359, False).map(lambda c: dict(c, style='colon')),
        sexa(23, False).map(lambda c: dict(c, style='hms')),
        sexa(359, False).map(lambda c: dict(c, style='dms')))


def lat_coord():
    return st.one_of(
        dec(-89, 89, 5).map(lambda t: {'style': 'dec', 't': t}),
        dec(-89, 89, 5, False).map(lambda t: {'style': 'dsuf', 't': t}),
        dec(-1.55, 1.55, 6, False).map(lambda t: {'style': 'rsuf', 't': t}),
        sexa(88, True).map(lambda c: dict(c, style='colon')),
        sexa(88, True).map(lambda c: dict(c, style='dms')))


def pix_coord():
    return st.tuples(dec(-500, 5000, 3), st.sampled_from(['', '', '', 'i'])).map(
        lambda t: {'style': 'pix', 't': t[0], 'u': t[1]})


def text_value():
    return st.text(alphabet=TEXT_ALPHABET, min_size=1, max_size=10).map(
        lambda s: s.strip() or 'x')


@st.composite
def props(draw, shape, allow_text=True, allow_include=True):
    out = []
    tdelim = draw(st.sampled_from(['{}', '""', "''"]))
    if allow_text and (shape == 'text' or draw(st.integers(0, 2)) == 0):
        t = draw(text_value())
        for ch in tdelim + '{}':
            t = t.replace(ch, '')
        t = t.strip() or 'x'
        out.append(['text', t])
    if allow_text and draw(st.integers(0, 3)) == 0:
        for _ in range(draw(st.integers(1, 2))):
            out.append(['tag', draw(st.sampled_from(['t1', 'Group A', 'bkg 2',
                                                     'x=y']))])
    for fl in draw(st.lists(st.sampled_from(D.FLAGS), max_size=2, unique=True)):
        out.append([fl, draw(st.sampled_from([0, 1]))])
    if allow_include and draw(st.integers(0, 3)) == 0:
        out.append(['include', draw(st.sampled_from([0, 1]))])
    if draw(st.integers(0, 2)) == 0:
        out.append(['color', draw(st.sampled_from(COLORS))])
    if draw(st.integers(0, 4)) == 0:
        out.append(['width', draw(st.integers(1, 5))])
    order = draw(st.permutations(list(range(len(out)))))
    return [out[i] for i in order], tdelim


@st.composite
def region_stmt(draw, frame, in_composite=False):
    pixel = frame == 'image'
    shape = draw(st.sampled_from(['circle', 'ellipse', 'box', 'annulus',
                                  'polygon', 'line', 'point', 'text']))

    def coord_pair():
        if pixel:
            return [draw(pix_coord()), draw(pix_coord())]
        return [draw(lon_coord(frame)), draw(lat_coord())]

    def size_list(n):
        """n increasing sizes sharing one unit."""
        if pixel:
            u = draw(st.sampled_from(['', '', 'i']))
            vals = sorted(draw(st.lists(st.integers(1, 80000), min_size=n,
                                        max_size=n, unique=True)))
            return [{'t': f'{v / 1000:.3f}'.rstrip('0').rstrip('.'), 'u': u}
                    for v in vals]
        u = draw(st.sampled_from(['"', "'", 'd', 'r', '']))
        hi = {'"': 3600000, "'": 60000, 'd': 5000, 'r': 80, '': 5000}[u]
        vals = sorted(draw(st.lists(st.integers(1, hi), min_size=n, max_size=n,
                                    unique=True)))
        return [{'t': f'{v / 1000:.3f}'.rstrip('0').rstrip('.'), 'u': u}
                for v in vals]

    r = {'k': 'region', 'shape': shape, 'coords': coord_pair()}
    if shape == 'circle':
        r['sizes'] = size_list(1)
    elif shape in ('ellipse', 'box'):
        npairs = draw(st.sampled_from([1, 1, 1, 2, 3]))
        a, b = size_list(npairs), size_list(npairs)
        r['sizes'] = [x for pair in zip(a, b) for x in pair]
        r['angle'] = {'t': draw(dec(-360, 360, 3, False)),
                      'u': draw(st.sampled_from(['', '', 'd', 'r']))}
        if r['angle']['u'] == 'r':
            r['angle']['t'] = draw(dec(-6, 6, 4, False))
    elif shape == 'annulus':
        r['sizes'] = size_list(draw(st.integers(2, 4)))
    elif shape == 'polygon':
        for _ in range(draw(st.integers(2, 5))):
            r['coords'] += coord_pair()
    elif shape == 'line':
        r['coords'] += coord_pair()
    r['sign'] = draw(st.sampled_from(['', '', '+', '-']))
    pr, td = draw(props(shape))
    r['props'], r['tdelim'] = pr, td
    r['style'] = draw(st.sampled_from(['paren', 'paren', 'space']))
    r['sep'] = draw(st.sampled_from([',', ', ', ' ', ' , ']))
    r['case'] = draw(st.sampled_from(['lower', 'lower', 'upper', 'cap']))
    r['term'] = draw(st.sampled_from(['\n', '\n', ';', '; ']))
    if shape == 'text' and r['sign'] == '' and not in_composite and draw(
            st.integers(0, 3)) == 0 and r['style'] == 'paren':
        r['hash_text'] = True
        r['props'] = [p for p in r['props'] if p[0] in ('text', 'color')]
        r['tdelim'] = '{}'
    # unit/frame combinations that the docs declare unsupported
    if draw(st.integers(0, 14)) == 0 and shape in ('circle', 'annulus'):
        r['bad_units'] = True
        if pixel:
            for s in r['sizes']:
                s['u'] = '"'
        else:
            r['coords'][0] = {'style': 'raw', 't': '10i'}
    return r


@st.composite
def ds9_file(draw, max_stmts):
    stmts = []
    if draw(st.booleans()):
        stmts.append({'k': 'header'})
    frame = None
    for _ in range(draw(st.integers(1, max_stmts))):
        kind = draw(st.sampled_from(['frame', 'frame', 'region', 'region',
                                     'region', 'region', 'global',
                                     'unsup_shape', 'unsup_frame', 'comment',
                                     'blank', 'composite']))
        if kind == 'frame':
            nm = draw(st.sampled_from(list(D.FRAME_ALIASES)))
            frame = D.FRAME_ALIASES[nm]
            stmts.append({'k': 'frame', 'name': nm,
                          'case': draw(st.sampled_from(['lower', 'upper', 'cap'])),
                          'term': draw(st.sampled_from(['\n', '\n', ';']))})
        elif kind == 'unsup_frame':
            frame = None
            stmts.append({'k': 'unsup_frame',
                          'name': draw(st.sampled_from(UNSUP_FRAMES)),
                          'term': draw(st.sampled_from(['\n', ';']))})
        elif kind == 'unsup_shape':
            stmts.append({'k': 'unsup_shape',
                          'name': draw(st.sampled_from(UNSUP_SHAPES)),
                          'params': draw(st.sampled_from(
                              ['1,2,3,4', '10,20,5,30', '1 2 3'])),
                          'props': draw(st.sampled_from(['', 'color=red',
                                                         'vector=1'])),
                          # parentheses and commas are optional here too
                          'bare': draw(st.sampled_from([False, False, True])),
                          'term': draw(st.sampled_from(['\n', ';']))})
        elif kind == 'comment':
            stmts.append({'k': 'comment', 'text': draw(st.sampled_from(
                ['just a comment', 'circle(1,2,3)', 'a; b; fk5',
                 'global color=red', 'Filename: x.fits',
                 'note\u2028circle(1,2,3)', 'fk5\x0cicrs\x85galactic',
                 'disabled: box(1,2,3,4,0); circle(50,60,7)',
                 'was: galactic; galactic'])),
                'indent': draw(st.sampled_from(['', '', '  ', '\t', ' \t '])),
            })
        elif kind == 'blank':
            stmts.append({'k': 'blank'})
        elif kind == 'global':
            pr, _ = draw(props('circle', allow_text=False, allow_include=False))
            if not pr:
                pr = [['color', 'green']]
            # DS9's own header line says include=1; the sign of each
            # region still decides (include=0 in a global line is not
            # generated: the manual does not say what it means)
            if draw(st.booleans()):
                pr.insert(draw(st.integers(0, len(pr))), ['include', 1])
            stmts.append({'k': 'global', 'props': pr, 'term': '\n',
                          'case': draw(st.sampled_from(
                              ['lower', 'lower', 'upper', 'cap']))})
        elif kind == 'composite':
            fr = frame if frame is not None else 'image'
            pixel = fr == 'image'
            head = {'k': 'region', 'shape': 'composite',
                    'coords': ([draw(pix_coord()), draw(pix_coord())] if pixel
                               else [draw(lon_coord(fr)), draw(lat_coord())]),
                    'angle': {'t': draw(dec(0, 360, 2, False)), 'u': ''},
                    'props': [], 'style': 'paren', 'sep': ','}
            cpr, _ = draw(props('circle', allow_text=False, allow_include=False))
            members = [draw(region_stmt(fr, in_composite=True))
                       for _ in range(draw(st.integers(1, 3)))]
            for m in members:
                m['term'] = '\n'
                m.pop('bad_units', None)
                if fr == 'image':
                    for s in m.get('sizes', []):
                        if s['u'] == '"':
                            s['u'] = ''
                elif m['coords'][0].get('style') == 'raw':
                    m['coords'][0] = {'style': 'dec', 't': '10'}
            stmts.append({'k': 'composite', 'head': head, 'cprops': cpr,
                          'members': members})
        else:
            stmts.append(draw(region_stmt(frame if frame is not None
                                          else 'image')))
    return stmts


def close(a, b, tol=1e-9):
    return abs(a - b) <= tol * max(1.0, abs(a), abs(b))


def lonlat(sc):
    return (np.atleast_1d(sc.spherical.lon.deg), np.atleast_1d(sc.spherical.lat.deg))


SIZE_NAMES = {'Circle': ['radius'], 'Ellipse': ['width', 'height'],
              'Rectangle': ['width', 'height'],
              'CircleAnnulus': ['inner_radius', 'outer_radius'],
              'EllipseAnnulus': ['inner_width', 'outer_width', 'inner_height',
                                 'outer_height'],
              'RectangleAnnulus': ['inner_width', 'outer_width',
                                   'inner_height', 'outer_height']}


def _ceq(a, b):
    # colour names / hex digits are case-insensitive
    if a is None or b is None:
        return a is b
    return str(a).lower() == str(b).lower()


def compare_region(ctx, e, r, text):
    import astropy.units as u
    name = type(r).__name__
    kind = 'Pixel' if e['frame'] == 'image' else 'Sky'
    want = e['cls'] + kind + 'Region'
    tag = f"{e['shape']} in {e['frame']}"
    ctx.check(name == want, f'{tag} | wrong class', f'{name} vs {want}\n{text}')

    def pos(v):
        if kind == 'Pixel':
            return np.atleast_1d(np.asarray(v.x, float)), np.atleast_1d(
                np.asarray(v.y, float))
        return lonlat(v)

    def same_pts(got, wantpts, what):
        xs, ys = got
        ctx.check(len(xs) == len(wantpts), f'{tag} | {what}: wrong number of '
                  'points', f'{len(xs)} vs {len(wantpts)}\n{text}')
        for (ex, ey), x, y in zip(wantpts, xs, ys):
            if kind == 'Sky':
                ex = ex % 360.0
                dx = abs(((x - ex) + 180.0) % 360.0 - 180.0)
                okx = dx <= 1e-9 * max(1.0, abs(ex))
            else:
                okx = close(ex, x)
            ctx.check(okx and close(ey, y), f'{tag} | {what} differs from the '
                      'DS9 reading', f'expected {(ex, ey)} got {(x, y)}\n{text}')
    if e['cls'] == 'Polygon':
        same_pts(pos(r.vertices), e['pts'], 'vertices')
        fr = r.vertices
    elif e['cls'] == 'Line':
        same_pts(pos(r.start), [e['center']], 'start')
        same_pts(pos(r.end), [e['end']], 'end')
        fr = r.start
    else:
        same_pts(pos(r.center), [e['center']], 'centre')
        fr = r.center
    if kind == 'Sky':
        ctx.check(fr.frame.name == e['frame'], f'{tag} | wrong celestial frame',
                  f'{fr.frame.name} vs {e["frame"]}\n{text}')
    for nm, ev in zip(SIZE_NAMES.get(e['cls'], []), e.get('sizes', [])):
        v = getattr(r, nm)
        v = float(v) if kind == 'Pixel' else v.to_value(u.deg)
        ctx.check(close(ev, v), f'{tag} | {nm} differs from the DS9 reading',
                  f'expected {ev!r} got {v!r}\n{text}')
    if e.get('angle') is not None and hasattr(r, 'angle'):
        ctx.check(close(e['angle'], r.angle.to_value(u.deg)),
                  f'{tag} | angle differs', f"{e['angle']!r} vs {r.angle!r}\n{text}")
    m = e['meta']
    ctx.check(r.meta.get('include') == m['include'],
              f'{tag} | include/exclude sense differs',
              f"{r.meta.get('include')!r} vs {m['include']!r}\n{text}")
    if e['cls'] == 'Text':
        ctx.check(r.text == m.get('text', ''), f'{tag} | text not verbatim',
                  f"{r.text!r} vs {m.get('text', '')!r}\n{text}")
    else:
        ctx.check(r.meta.get('text') == m.get('text'),
                  f'{tag} | text label not verbatim',
                  f"{r.meta.get('text')!r} vs {m.get('text')!r}\n{text}")
    ctx.check(r.meta.get('tag') == e['tags'], f'{tag} | tags differ',
              f"{r.meta.get('tag')!r} vs {e['tags']!r}\n{text}")
    for fl in D.FLAGS:
        ctx.check(r.meta.get(fl) == m.get(fl),
                  f'{tag} | flag {fl}: per-region/global precedence',
                  f"{r.meta.get(fl)!r} vs {m.get(fl)!r}\n{text}")
    col = m.get('color')
    if e['cls'] in ('Point', 'Line', 'Text'):
        ctx.check(_ceq(r.visual.get('color'), col), f'{tag} | colour differs',
                  f"{r.visual.get('color')!r} vs {col!r}\n{text}")
    else:
        ctx.check(_ceq(r.visual.get('edgecolor'), col)
                  and _ceq(r.visual.get('facecolor'), col),
                  f'{tag} | colour differs',
                  f"{dict(r.visual)!r} vs {col!r}\n{text}")


class Read(Relation):
    name = 'C10.read'
    examples = {'quick': 400, 'thorough': 2500}
    shards = {'quick': 8, 'thorough': 16}
    # coverage-guided tier: (shards, libFuzzer runs per shard)
    guided = {'quick': (2, 1000), 'thorough': (16, 20000)}
    guided_modules = ['regions.io', 'regions.core.metadata']

    def strategy(self, tier):
        return ds9_file(12 if tier == 'quick' else 30)

    def check(self, afile, ctx):
        from astropy.utils.exceptions import AstropyUserWarning
        from regions import Regions
        text = D.render(afile)
        expected, skipped = D.interpret(afile)
        with warnings.catch_warnings(record=True) as rec:
            warnings.simplefilter('always')
            regs = list(Regions.parse(text, format='ds9'))
        kinds = [s['k'] for s in afile]
        ctx.label(*{'stmt:' + k for k in kinds})
        ctx.check(len(regs) == len(expected),
                  'count | number of regions differs from the DS9 reading',
                  f'expected {len(expected)} got {len(regs)}\n{text}')
        for e, r in zip(expected, regs):
            compare_region(ctx, e, r, text)
        nwarn = sum(1 for w in rec if issubclass(w.category, AstropyUserWarning))
        if skipped:
            ctx.check(nwarn >= 1, 'skip | statements skipped without a warning',
                      text)
        frames = [s for s in afile if s['k'] in ('frame', 'unsup_frame')]
        fancy = any(c.get('style') not in ('dec', 'pix') or c.get('u')
                    for s in afile if s['k'] == 'region'
                    for c in s['coords']) or any(
            sz.get('u') for s in afile if s['k'] == 'region'
            for sz in s.get('sizes', []))
        between = any(k in ('unsup_shape', 'unsup_frame') for k in kinds)
        from vf.ops import parsed_independent
        with warnings.catch_warnings():
            warnings.simplefilter('ignore')
            parsed_independent(ctx, regs, lambda: Regions.parse(
                text, format='ds9'), 'read')
        ctx.nontrivial((len(frames) >= 2 or between) and fancy
                       and len(expected) >= 1)


RELATIONS = [Read()]
