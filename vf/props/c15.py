"""C15 - membership, area, boxes and masks follow the region under rigid motions."""
import copy
import math

import numpy as np
from hypothesis import strategies as st

from vf import spec as S
from vf.gen import queries as Q
from vf.gen import regions as G
from vf.ref import geometry as ref
from vf.runner import Relation

LEVEL = 'exploration'
RULE = ('C15.rotate: Hypothesis draws a pixel region of any class (incl. '
        'regular polygons, annuli, compounds to depth 2) with populated meta, '
        'a rotation centre (the region centre, a vertex-like point, far '
        'points), an angle of any magnitude/sign/unit and query points placed '
        'relative to the boundary; metamorphic oracle: R.rotate(c, a) is of '
        'the same class and meta, has the same area, contains rot(p) iff R '
        'contains p (points inside the rounding band of the reference margin '
        'are skipped), rotating back restores every parameter, and R itself '
        'is untouched. C15.translate: regions with dyadic parameters (k/64) '
        'translated by integers up to +-1e4: bounding box translated exactly, '
        'mask arrays identical in centre / subpixels 1..5 / exact mode. '
        'Non-trivial: rotation centre != region centre and angle not a '
        'multiple of 90 deg; |t| >= 100 with a non-integer centre.')
ASSUMPTIONS = [
    'rot(p) is computed by the harness in float64; the rounding band used to '
    'skip boundary points includes eps*(|angle|+|theta|)*lever arm',
]


def _rot(x, y, cx, cy, th):
    c, s = math.cos(th), math.sin(th)
    return cx + c * (x - cx) - s * (y - cy), cy + s * (x - cx) + c * (y - cy)


def _params(reg):
    """Flat {name: float array} of a region's shape parameters."""
    import astropy.units as u
    from regions import PixCoord
    out = {}
    for p in reg._params:
        v = getattr(reg, p)
        if isinstance(v, PixCoord):
            out[p + '.x'] = np.asarray(v.x, float)
            out[p + '.y'] = np.asarray(v.y, float)
        elif isinstance(v, u.Quantity):
            out[p] = v
        elif p in ('region1', 'region2'):
            for k, w in _params(v).items():
                out[f'{p}.{k}'] = w
        elif p == 'operator':
            out[p] = v
        else:
            out[p] = v
    return out


def _scale(rs):
    """Characteristic size and centre of a spec."""
    lv = G.leaves(rs)
    cs = [ref.center_of(l) for l in lv]
    size = 0.0
    for l in lv:
        for k in ('radius', 'outer_radius', 'width', 'height', 'outer_width',
                  'outer_height'):
            if k in l:
                size = max(size, float(l[k]))
        if 'vertices' in l:
            vx, vy = ref.polygon_vertices(l)
            size = max(size, float(np.ptp(vx)), float(np.ptp(vy)))
        if 'start' in l:
            size = max(size, abs(l['end'][0] - l['start'][0]),
                       abs(l['end'][1] - l['start'][1]))
    return cs, size


def _angle_raw_max(rs):
    return max([S.angle_rad_raw(l['angle']) for l in G.leaves(rs)
                if l.get('angle')] + [0.0])


class Rotate(Relation):
    name = 'C15.rotate'
    examples = {'quick': 1000, 'thorough': 8000}
    shards = {'quick': 8, 'thorough': 16}

    def strategy(self, tier):
        sz = G.sizes(1e-2, 1e4)
        leaf = G.simple_pixel(sz, max_ratio=1e9)
        near = G.simple_pixel(G.sizes(0.5, 50.0), cmode='near')
        c1 = G.coord1('any')
        return st.fixed_dictionaries({
            'pivot': st.one_of(st.just('center'), st.just('boundary'),
                               st.tuples(c1, c1).map(list),
                               st.tuples(G.coord1('near'),
                                         G.coord1('near')).map(list)),
            'theta': G.angles(False),
            'query': Q.query_strategy(24),
            'region': st.one_of(leaf, leaf, leaf,
                                G.compound(near, max_depth=2)),
            'visual': st.sampled_from([None, {'color': 'red'},
                                       {'linewidth': 2, 'facecolor': 'blue'},
                                       # (what the DS9 reader stores for
                                       # textangle / a rotated label)
                                       {'rotation': 30, 'color': 'cyan'},
                                       {'rotation': -12.5, 'textangle': 10,
                                        'fontsize': 11}]),
        })

    def check(self, sp, ctx):
        from regions import PixCoord
        rs = dict(sp['region'])
        if sp['visual'] is not None and rs['cls'] != 'CompoundPixelRegion':
            rs['visual'] = sp['visual']
        cls = rs['cls']
        reg = S.build(rs)
        cs, size = _scale(rs)
        if sp['pivot'] == 'center':
            cx, cy = cs[0]
        elif sp['pivot'] == 'boundary':
            (_, _), (cx, cy) = Q.boundary_point(G.leaves(rs)[0], 0.3, 0.7)
        else:
            cx, cy = sp['pivot']
        pivot = PixCoord(cx, cy)
        theta = S.angle(sp['theta'])
        th = S.angle_rad_reduced(sp['theta'])
        th_raw = S.angle_rad_raw(sp['theta'])
        ang_raw = _angle_raw_max(rs)
        before = copy.deepcopy(_params(reg))
        meta_before = (dict(reg.meta), dict(reg.visual))
        rot = reg.rotate(pivot, theta)
        ctx.label(cls, G.angle_family({'angle': sp['theta']}),
                  'pivot:' + (sp['pivot'] if isinstance(sp['pivot'], str)
                              else 'free'))
        # ---- class, meta, visual
        ctx.check(type(rot) is type(reg), f'{cls} | rotate changes the class',
                  type(rot).__name__)
        ctx.check(dict(rot.meta) == meta_before[0]
                  and dict(rot.visual) == meta_before[1],
                  f'{cls} | rotate loses or changes meta/visual',
                  f'{dict(rot.meta)} {dict(rot.visual)}')
        ctx.check(rot.meta is not reg.meta or cls == 'CompoundPixelRegion',
                  f'{cls} | rotated region shares its meta object')
        # ---- original untouched
        after = _params(reg)
        same = all(_same(before[k], after[k]) for k in before)
        ctx.check(same and (dict(reg.meta), dict(reg.visual)) == meta_before,
                  f'{cls} | rotate modifies the original region')
        # ---- area
        if cls not in ('CompoundPixelRegion',):
            a0, a1 = reg.area, rot.area
            # polygons store vertices: each coordinate carries eps*|coord|
            atol = (64 * ref.EPS * size * (size + abs(cx) + abs(cy) + max(
                abs(c[0]) + abs(c[1]) for c in cs)) * (1 + th_raw + ang_raw)
                if 'Polygon' in cls else 0.0)
            ctx.check(abs(a1 - a0) <= 1e-12 * abs(a0) + atol,
                      f'{cls} | rotation changes the area', f'{a0!r} -> {a1!r}')
        # ---- membership follows the rotation
        q = dict(sp['query'])
        if q['layout'] in ('empty',):
            q['layout'] = '1d'
        q['dtype'] = 'float'
        x, y = Q.materialise(rs, q)
        xx, yy = np.broadcast_arrays(np.asarray(x, float), np.asarray(y, float))
        lever = (np.hypot(xx - cx, yy - cy)
                 + max(math.hypot(c[0] - cx, c[1] - cy) for c in cs) + size)
        pos_err = (64 * ref.EPS * (np.abs(xx) + np.abs(yy) + abs(cx) + abs(cy)
                                   + max(abs(c[0]) + abs(c[1]) for c in cs)
                                   + size)
                   + 16 * ref.EPS * (th_raw + ang_raw) * lever)
        _, definite = ref.contains_ref(rs, xx, yy)
        _, definite2 = ref.stripped_ref(rs, xx, yy, pos_err)
        definite = definite & definite2
        rx, ry = _rot(xx, yy, cx, cy, th)
        got0 = np.asarray(reg.contains(PixCoord(xx, yy)))
        got1 = np.asarray(rot.contains(PixCoord(rx, ry)))
        bad = definite & (got0 != got1)
        ctx.count('points', int(definite.sum()))
        ctx.count('ambiguous_points', int((~definite).sum()))
        if bad.any():
            i = tuple(int(v) for v in np.argwhere(bad)[0])
            ctx.fail(f'{cls} | membership does not follow the rotation',
                     f'p=({xx[i]!r}, {yy[i]!r}) in R: {bool(got0[i])}; '
                     f'rot(p)=({rx[i]!r}, {ry[i]!r}) in rot(R): {bool(got1[i])}')
        # ---- positions of the rotated region are the rotated positions
        pr = _params(rot)
        for k in before:
            if k.endswith('.x') and not k.startswith(('region', 'vertices')) \
                    and cls != 'RegularPolygonPixelRegion':
                wx, wy = _rot(before[k], before[k[:-2] + '.y'], cx, cy, th)
                lev = np.hypot(before[k] - cx, before[k[:-2] + '.y'] - cy)
                t = (64 * ref.EPS * (np.abs(before[k]) + abs(cx) + abs(cy)
                                     + np.abs(before[k[:-2] + '.y']))
                     + 16 * ref.EPS * (1 + th_raw) * lev + 1e-12 * lev)
                ctx.check(np.all(np.abs(pr[k] - wx) <= t) and np.all(
                    np.abs(pr[k[:-2] + '.y'] - wy) <= t),
                    f'{cls} | {k[:-2]} of the rotated region is not the '
                    'rotated position',
                    f'{(pr[k], pr[k[:-2] + ".y"])} vs {(wx, wy)}')
        # ---- rotating back restores the parameters
        back = rot.rotate(pivot, -theta)
        pb = _params(back)
        tolpos = 1e-9 * (size + max(math.hypot(c[0] - cx, c[1] - cy)
                                    for c in cs)) \
            + 64 * ref.EPS * (abs(cx) + abs(cy)
                              + max(abs(c[0]) + abs(c[1]) for c in cs)) \
            + 32 * ref.EPS * (th_raw + ang_raw) * (
                size + max(math.hypot(c[0] - cx, c[1] - cy) for c in cs))
        for k, v0 in before.items():
            v1 = pb[k]
            if k.endswith('operator'):
                ctx.check(v1 is v0, f'{cls} | rotate changes the operator')
            elif k.endswith('angle'):
                d = math.remainder((v1 - v0).to_value('rad'), 2 * math.pi)
                ctx.check(abs(d) <= 1e-9 + 32 * ref.EPS * (th_raw + ang_raw),
                          f'{cls} | rotating back does not restore {k.split(".")[-1]}',
                          f'{v0} -> {v1}')
            elif k.endswith(('.x', '.y')):
                ctx.check(np.shape(v1) == np.shape(v0)
                          and np.all(np.abs(v1 - v0) <= tolpos),
                          f'{cls} | rotating back does not restore {k.split(".")[-2]}',
                          f'{v0} -> {v1} (tol {tolpos!r})')
            else:
                ctx.check(_same(v0, v1),
                          f'{cls} | rotating back changes {k.split(".")[-1]}',
                          f'{v0!r} -> {v1!r}')
        off_centre = math.hypot(cs[0][0] - cx, cs[0][1] - cy) > 1e-9 * (size + 1)
        dv = got0[definite]
        ctx.nontrivial(off_centre and abs(math.remainder(th, math.pi / 2)) > 1e-6
                       and dv.size > 0
                       and (dv.any() != dv.all() or cls in (
                           'PointPixelRegion', 'LinePixelRegion',
                           'TextPixelRegion')))


def _same(a, b):
    import astropy.units as u
    if isinstance(a, u.Quantity):
        return bool(a.unit == b.unit and a.value == b.value)
    if isinstance(a, np.ndarray):
        return bool(np.array_equal(a, b))
    return a is b or bool(a == b)


# ------------------------------------------------------------- translate ---

def dyadic_regions():
    d = st.integers(-6400, 6400).map(lambda k: k / 64.0)
    s = st.integers(8, 1600).map(lambda k: k / 64.0)
    ang = st.one_of(st.none(), st.integers(-720, 720).map(
        lambda k: [float(k), 'deg', 'Quantity']),
        st.floats(-400, 400).map(lambda v: [v, 'deg', 'Quantity']))

    def mk(t):
        kind, cx, cy, a, b, an, n, vs = t
        c = [cx, cy]
        if kind == 'circle':
            return {'cls': 'CirclePixelRegion', 'center': c, 'radius': a}
        if kind == 'ellipse':
            return {'cls': 'EllipsePixelRegion', 'center': c, 'width': a,
                    'height': b, 'angle': an}
        if kind == 'rect':
            return {'cls': 'RectanglePixelRegion', 'center': c, 'width': a,
                    'height': b, 'angle': an}
        if kind == 'poly':
            return {'cls': 'PolygonPixelRegion',
                    'vertices': [[cx + v[0] for v in vs[:n]],
                                 [cy + v[1] for v in vs[:n]]]}
        if kind == 'polyq':
            # a polygon whose slanted edges meet dyadic sample points EXACTLY
            # and whose edge-crossing arithmetic is exact: the y coordinates
            # sit on three levels a, a+h, a+2h with h a power of two (every
            # quotient by an edge's dy is exact), x on the 1/8 lattice.
            # Samples on an edge are ties - and must be decided the same way
            # wherever the polygon is moved by whole pixels.
            h = (0.5, 1.0, 2.0, 4.0)[n % 4]
            xs = [round(cx) + round(v[0] * 8) / 8.0 for v in vs[:n]]
            ys = [round(cy) + (int(abs(v[1]) * 64) % 3) * h for v in vs[:n]]
            return {'cls': 'PolygonPixelRegion', 'vertices': [xs, ys],
                    'exact_ties': True}
        if kind in ('point', 'text', 'line'):
            # shapes without area: only the box can follow the translation;
            # coordinates on pixel edges (half-integers) in half of the cases
            hx = (round(cx * 2) / 2.0) if n % 2 else cx
            hy = (round(cy * 2) / 2.0) if n % 3 else cy
            if kind == 'point':
                return {'cls': 'PointPixelRegion', 'center': [hx, hy]}
            if kind == 'text':
                return {'cls': 'TextPixelRegion', 'center': [hx, hy],
                        'text': 'label'}
            return {'cls': 'LinePixelRegion', 'start': [hx, hy],
                    'end': [hx + vs[0][0], hy + round(vs[0][1] * 2) / 2.0]}
        if kind == 'regpoly':
            return {'cls': 'RegularPolygonPixelRegion', 'center': c,
                    'nvertices': n, 'radius': a, 'angle': an}
        if kind == 'cann':
            return {'cls': 'CircleAnnulusPixelRegion', 'center': c,
                    'inner_radius': a / 2, 'outer_radius': a}
        cls = ('EllipseAnnulusPixelRegion' if kind == 'eann'
               else 'RectangleAnnulusPixelRegion')
        return {'cls': cls, 'center': c, 'inner_width': a / 2,
                'outer_width': a, 'inner_height': b / 4, 'outer_height': b,
                'angle': an}
    off = st.integers(-640, 640).map(lambda k: k / 64.0)
    leaf = st.tuples(
        st.sampled_from(['circle', 'ellipse', 'rect', 'poly', 'regpoly',
                         'cann', 'eann', 'rann', 'polyq', 'point', 'text',
                         'line']),
        d, d, s, s, ang, st.integers(3, 8),
        st.lists(st.tuples(off, off), min_size=8, max_size=8)).map(mk)
    return st.one_of(leaf, leaf, G.compound(leaf, max_depth=2,
                                            with_meta=False))


def translate(rs, tx, ty):
    rs = dict(rs)
    if rs['cls'] == 'CompoundPixelRegion':
        rs['r1'] = translate(rs['r1'], tx, ty)
        rs['r2'] = translate(rs['r2'], tx, ty)
        return rs
    if 'center' in rs:
        rs['center'] = [rs['center'][0] + tx, rs['center'][1] + ty]
    for k in ('start', 'end'):
        if k in rs:
            rs[k] = [rs[k][0] + tx, rs[k][1] + ty]
    if 'vertices' in rs:
        rs['vertices'] = [[v + tx for v in rs['vertices'][0]],
                          [v + ty for v in rs['vertices'][1]]]
    return rs


class Translate(Relation):
    name = 'C15.translate'
    examples = {'quick': 300, 'thorough': 4000}
    shards = {'quick': 8, 'thorough': 16}

    def strategy(self, tier):
        t = st.one_of(st.integers(-10**4, 10**4), st.integers(-300, 300),
                      st.sampled_from([10**4, -10**4, 4096, -4097]))
        return st.fixed_dictionaries({'tx': t, 'ty': t,
                                      'subpixels': st.integers(1, 5),
                                      'region': dyadic_regions()})

    def check(self, sp, ctx):
        rs = sp['region']
        cls = rs['cls']
        tx, ty = sp['tx'], sp['ty']
        r0 = S.build(rs)
        r1 = S.build(translate(rs, tx, ty))
        b0, b1 = r0.bounding_box, r1.bounding_box
        ctx.label(cls + (':exact-ties' if rs.get('exact_ties') else ''))
        # an extreme that lies on a pixel edge up to rounding (only possible
        # when sin/cos of the angle enter) makes the box itself ambiguous
        from vf.ref.extent import extent
        for leaf in G.leaves(rs):
            e = extent(leaf)
            if e[4] > 0 and any(abs(float(v) + 0.5 - round(float(v) + 0.5))
                                < 1e-9 for v in e[:4]):
                ctx.count('ambiguous_extreme_on_pixel_edge')
                return
        ctx.check((b1.ixmin, b1.ixmax, b1.iymin, b1.iymax)
                  == (b0.ixmin + tx, b0.ixmax + tx, b0.iymin + ty,
                      b0.iymax + ty),
                  f'{cls} | bounding box is not translated by the same amount',
                  f'{b0} + ({tx}, {ty}) -> {b1}')
        if any(leaf['cls'] in ('PointPixelRegion', 'TextPixelRegion',
                               'LinePixelRegion') for leaf in G.leaves(rs)):
            ctx.nontrivial(max(abs(tx), abs(ty)) >= 100)
            return              # (no masks for shapes without area)
        if b0.shape[0] * b0.shape[1] > 250 * 250:
            ctx.count('outside_domain_huge_mask')
            return
        compound_like = cls == 'CompoundPixelRegion' or 'Annulus' in cls
        modes = [('center', 1)]
        if not compound_like:
            modes.append(('subpixels', sp['subpixels']))
            if cls in ('CirclePixelRegion', 'EllipsePixelRegion'):
                modes.append(('exact', 1))
        from vf.props.c02 import sample_reference
        for mode, n in modes:
            m0 = np.asarray(r0.to_mask(mode, n).data)
            m1 = np.asarray(r1.to_mask(mode, n).data)
            diff = m0 != m1
            if diff.any() and mode != 'exact' and not (
                    rs.get('exact_ties') and n in (1, 2, 4)):
                # pixels with a sub-sample inside the rounding band of the
                # boundary are decided by rounding, before and after
                lo, hi, _ = sample_reference(
                    rs, (b0.ixmin, b0.ixmax, b0.iymin, b0.iymax), n,
                    (0, b0.shape[0]))
                amb = lo != hi
                ctx.count('ambiguous_pixels_skipped', int((diff & amb).sum()))
                diff &= ~amb
            if diff.any():
                j, i = (int(v) for v in np.argwhere(diff)[0])
                ctx.fail(f'{cls} mode={mode} | mask changes under an integer '
                         'translation',
                         f'n={n} t=({tx}, {ty}) pixel [{j}, {i}]: {m0[j, i]!r} '
                         f'-> {m1[j, i]!r}; {int(diff.sum())} pixels differ')
        c = ref.center_of(G.leaves(rs)[0])
        ctx.nontrivial(max(abs(tx), abs(ty)) >= 100
                       and not (float(c[0]).is_integer()
                                and float(c[1]).is_integer()))


RELATIONS = [Rotate(), Translate()]
