"""C05 - applying a mask to an image is exact placement at the bounding box."""
import numpy as np
from hypothesis import strategies as st

from vf.runner import Relation

LEVEL = 'exploration'
RULE = ('Hypothesis draws a RegionMask directly (box 0x0..12x9 quick / 40x40 '
        'thorough at offsets -15..20 around the image; weights in [0,1] with '
        'exact zeros, float64/float32/int dtype), an image (0x0..16x12; int64, '
        'int16, float64, float32 or Quantity; nan/inf entries for floats), a '
        'fill value (0, finite representable in the data dtype, nan, +-inf), '
        'the copy flag and an optional boolean data mask. Oracle: a '
        'dict-of-pixels placement model evaluated by loops (no slicing '
        'arithmetic). Non-trivial: the box straddles an image edge or lies '
        'fully outside, and the weights hold both zero and non-zero entries.')
ASSUMPTIONS = [
    'finite fill values are representable in the data dtype (the documented '
    'type is float; lossy int fills are outside the asserted domain)',
    'values are compared exactly (NaN == NaN), dtypes are not compared except '
    'that a Quantity keeps its unit',
]

DTYPES = ['float64', 'float64', 'int64', 'int16', 'float32', 'quantity']


def strategy(tier):
    big = tier != 'quick'
    wmax, hmax = (40, 40) if big else (12, 9)

    def mk(t):
        (x0, y0, w, h, ny, nx, dt, wdt, fill, copy, usemask,
         wvals, dvals, mvals, order, pattern, grow) = t
        if grow:
            # one case in twelve: a box and an image of a few thousand pixels
            # (thresholds such as "at least 1024 pixels" are then crossed)
            w, h = w * grow + 21, h * grow + 17
            ny, nx = ny * grow + 11, nx * grow + 13
        if dt in ('int64', 'int16') and fill not in ('nan', 'inf', '-inf'):
            fill = float(int(fill))
        n = max(1, w * h)
        weights = [wvals[i % len(wvals)] for i in range(w * h)]
        # structured footprints: the positive weights confined to a band of
        # rows / columns at one side of the box, to one corner, or absent
        kind, k = pattern
        if kind != 'scattered' and w and h:
            def keep(i, j):          # row i, column j of the box
                return {'rows_low': i < k, 'rows_high': i >= h - k,
                        'cols_low': j < k, 'cols_high': j >= w - k,
                        'corner_ll': i < k and j < k,
                        'corner_ur': i >= h - k and j >= w - k,
                        'all_zero': False}[kind]
            weights = [(v if v > 0 else 1.0) if keep(idx // w, idx % w) else 0.0
                       for idx, v in enumerate(weights)]
        if wdt == 'int':
            weights = [1 if v > 0.5 else 0 for v in weights]
        data = [dvals[i % len(dvals)] for i in range(ny * nx)]
        return {'box': [x0, x0 + w, y0, y0 + h], 'shape': [ny, nx],
                'dtype': dt, 'wdtype': wdt, 'fill': fill, 'copy': copy,
                'weights': weights, 'data': data, 'order': order,
                'mask': ([bool(mvals[i % len(mvals)]) for i in range(ny * nx)]
                         if usemask else None)}

    wv = st.one_of(st.sampled_from([0.0, 0.0, 1.0, 1.0, 0.5, 0.25, 0.75]),
                   st.floats(0, 1))
    dv = st.one_of(st.integers(-50, 50).map(float),
                   st.sampled_from(['nan', 'inf', '-inf', 0.0, 0.5, -2.5]))
    return st.tuples(
        st.integers(-15, 20), st.integers(-12, 16),
        st.integers(0, wmax), st.integers(0, hmax),
        st.integers(0, 12), st.integers(0, 16),
        st.sampled_from(DTYPES), st.sampled_from(['float64', 'float64', 'int',
                                                  'float32']),
        st.sampled_from([0.0, 0.0, 1.0, -7.0, 2.5, 100.0, 'nan', 'inf', '-inf']),
        st.booleans(), st.booleans(),
        st.lists(wv, min_size=3, max_size=24),
        st.lists(dv, min_size=3, max_size=24),
        st.lists(st.booleans(), min_size=2, max_size=11),
        st.sampled_from(['C', 'C', 'F', 'strided']),
        st.tuples(st.sampled_from(['scattered', 'scattered', 'scattered',
                                   'rows_low', 'rows_high', 'cols_low',
                                   'cols_high', 'corner_ll', 'corner_ur',
                                   'all_zero']), st.integers(1, 3)),
        st.sampled_from([0] * 11 + [3, 4])).map(mk)


def _f(v):
    return {'nan': np.nan, 'inf': np.inf, '-inf': -np.inf}.get(v, v)


def build(spec):
    import astropy.units as u
    from regions import RegionBoundingBox, RegionMask
    x0, x1, y0, y1 = spec['box']
    h, w = y1 - y0, x1 - x0
    wd = {'float64': np.float64, 'float32': np.float32,
          'int': np.int64}[spec['wdtype']]
    weights = np.array([_f(v) for v in spec['weights']], dtype=wd).reshape(h, w)
    ny, nx = spec['shape']
    dt = spec['dtype']
    vals = [_f(v) for v in spec['data']]
    if dt in ('int64', 'int16'):
        vals = [0 if not np.isfinite(v) else int(v) for v in vals]
        data = np.array(vals, dtype=dt).reshape(ny, nx)
    elif dt == 'quantity':
        data = np.array(vals, dtype=float).reshape(ny, nx) * u.Jy
    else:
        data = np.array(vals, dtype=dt).reshape(ny, nx)
    order = spec.get('order', 'C')
    if order == 'F':
        data = np.asfortranarray(data.value) * data.unit if dt == 'quantity' \
            else np.asfortranarray(data)
        weights = np.asfortranarray(weights)
    elif order == 'strided' and dt != 'quantity':
        big = np.repeat(np.repeat(data, 2, axis=0), 2, axis=1)
        data = big[::2, ::2]
    mask = RegionMask(weights, RegionBoundingBox(x0, x1, y0, y1))
    dmask = (None if spec['mask'] is None
             else np.array(spec['mask'], dtype=bool).reshape(ny, nx))
    return mask, weights, data, dmask


def same(a, b, rtol=0.0):
    a = np.asarray(a, dtype=float)
    b = np.asarray(b, dtype=float)
    if a.shape != b.shape:
        return False
    with np.errstate(all='ignore'):
        close = (a == b) | (np.isnan(a) & np.isnan(b))
        if rtol:
            # (+ float32 underflow: below the smallest normal float32)
            close |= np.abs(a - b) <= rtol * np.maximum(np.abs(a), np.abs(b)) + 1e-37
    return bool(np.all(close))


class Placement(Relation):
    name = 'C05.placement'
    examples = {'quick': 2500, 'thorough': 25000}
    shards = {'quick': 8, 'thorough': 16}

    def strategy(self, tier):
        return strategy(tier)

    def check(self, spec, ctx):
        import astropy.units as u
        mask, weights, data, dmask = build(spec)
        x0, x1, y0, y1 = spec['box']
        h, w = y1 - y0, x1 - x0
        ny, nx = spec['shape']
        fill = _f(spec['fill'])
        isq = spec['dtype'] == 'quantity'
        raw = data.value if isq else data
        before = (raw.tobytes(), raw.dtype.str, raw.shape)
        wbefore = weights.tobytes()
        # ---- the model: dict of pixels
        model = {(x0 + i, y0 + j): weights[j, i] for j in range(h)
                 for i in range(w)}
        common = {p for p in model if 0 <= p[0] < nx and 0 <= p[1] < ny}
        ctx.label('dtype:' + spec['dtype'], 'w:' + spec['wdtype'],
                  'fill:' + str(spec['fill']),
                  'overlap:' + ('none' if not common else
                                'full' if len(common) == len(model)
                                else 'partial'))
        tag = f"dtype={spec['dtype']}"
        # products involving a float32 operand may be formed in float32 or
        # float64 depending on numpy's promotion path: one float32 ulp
        rt = 2.0 ** -22 if 'float32' in (spec['dtype'], spec['wdtype']) else 0.0
        # ---- get_overlap_slices through the mask
        sl = mask.get_overlap_slices((ny, nx))
        ctx.check((sl[0] is None) == (not common)
                  and (sl[1] is None) == (not common),
                  'slices | None iff no common pixel', f'{sl}')
        # ---- arguments that are not a 2-D image / its shape are refused
        # (never broadcast, truncated or wrapped), and the mask is an array
        for nm, f in (('to_image', lambda: mask.to_image((ny,))),
                      ('to_image', lambda: mask.to_image((ny, nx, 2))),
                      ('cutout', lambda: mask.cutout(np.zeros(max(nx, 1)))),
                      ('multiply', lambda: mask.multiply(
                          np.zeros((2, max(ny, 1), max(nx, 1))))),
                      ('get_values', lambda: mask.get_values(
                          raw, mask=np.zeros((ny + 1, nx), bool)))):
            try:
                got = f()
            except ValueError:
                pass
            else:
                ctx.fail(f'{nm} | an argument of the wrong dimensionality / '
                         'shape is accepted', repr(got)[:200])
        ctx.check(np.array_equal(np.asarray(mask), weights)
                  and np.asarray(mask).shape == (h, w),
                  'array | np.asarray(mask) is not the weight array')
        # ---- to_image
        img = mask.to_image((ny, nx))
        if not common:
            ctx.check(img is None, 'to_image | no overlap but not None',
                      repr(type(img)))
        else:
            ctx.check(img is not None and img.shape == (ny, nx),
                      'to_image | wrong shape or None')
            want = np.zeros((ny, nx))
            for (x, y) in common:
                want[y, x] = model[(x, y)]
            ctx.check(same(img, want), 'to_image | wrong placement',
                      lambda: f'box {spec["box"]} shape {(ny, nx)}')
        # ---- cutout
        cut = mask.cutout(data, fill_value=fill, copy=spec['copy'])
        if not common:
            ctx.check(cut is None, 'cutout | no overlap but not None')
        else:
            ctx.check(cut is not None and cut.shape == (h, w),
                      f'cutout {tag} | wrong shape or None',
                      lambda: f'{None if cut is None else cut.shape} vs {(h, w)}')
            cv = cut.value if isinstance(cut, u.Quantity) else cut
            if isq:
                ctx.check(isinstance(cut, u.Quantity) and cut.unit == data.unit,
                          'cutout quantity | unit lost')
            want = np.empty((h, w), dtype=float)
            for j in range(h):
                for i in range(w):
                    p = (x0 + i, y0 + j)
                    want[j, i] = raw[p[1], p[0]] if p in common else fill
            ctx.check(same(cv, want), f'cutout {tag} | wrong values',
                      lambda: f'box {spec["box"]} shape {(ny, nx)} fill {fill}')
            if spec['copy']:
                ctx.check(not np.shares_memory(cv, raw),
                          f'cutout {tag} | copy=True shares memory with the '
                          'input')
        # ---- multiply
        mul = mask.multiply(data, fill_value=fill)
        if not common:
            ctx.check(mul is None, 'multiply | no overlap but not None')
        else:
            ctx.check(mul is not None and mul.shape == (h, w),
                      f'multiply {tag} | wrong shape or None')
            mv = mul.value if isinstance(mul, u.Quantity) else mul
            if isq:
                ctx.check(isinstance(mul, u.Quantity) and mul.unit == data.unit,
                          'multiply quantity | unit lost')
            want = np.empty((h, w), dtype=float)
            with np.errstate(all='ignore'):
                for j in range(h):
                    for i in range(w):
                        p = (x0 + i, y0 + j)
                        wgt = model[p]
                        if wgt == 0:
                            want[j, i] = fill
                        elif p in common:
                            want[j, i] = raw[p[1], p[0]] * wgt
                        else:
                            want[j, i] = raw.dtype.type(fill) * wgt \
                                if np.isfinite(fill) else fill * wgt
            ctx.check(same(mv, want, rt), f'multiply {tag} | wrong values',
                      lambda: f'box {spec["box"]} shape {(ny, nx)} fill {fill}'
                              f' got {mv.tolist()} want {want.tolist()}')
        # ---- get_values
        vals = mask.get_values(data, mask=dmask)
        vv = vals.value if isinstance(vals, u.Quantity) else np.asarray(vals)
        want = []
        with np.errstate(all='ignore'):
            for j in range(h):
                for i in range(w):
                    p = (x0 + i, y0 + j)
                    if p in common and model[p] > 0 and not (
                            dmask is not None and dmask[p[1], p[0]]):
                        want.append(raw[p[1], p[0]] * model[p])
        ctx.check(vv.ndim == 1 and same(vv, np.array(want, dtype=float), rt),
                  f'get_values {tag} | wrong values or order',
                  lambda: f'box {spec["box"]} shape {(ny, nx)} got '
                          f'{vv.tolist()} want {want}')
        if isq and common and len(want):
            ctx.check(isinstance(vals, u.Quantity) and vals.unit == data.unit,
                      'get_values quantity | unit lost')
        # ---- the same RegionMask object answers the same later on: without
        # the data mask, with another data mask, and with the first again
        def gv_model(dm):
            out = []
            with np.errstate(all='ignore'):
                for j in range(h):
                    for i in range(w):
                        p = (x0 + i, y0 + j)
                        if p in common and model[p] > 0 and not (
                                dm is not None and dm[p[1], p[0]]):
                            out.append(raw[p[1], p[0]] * model[p])
            return np.array(out, dtype=float)
        dm2 = None if dmask is None else ~dmask
        for k, dm in enumerate((None, dm2, dmask, None)):
            vals = mask.get_values(data, mask=dm)
            vv = vals.value if isinstance(vals, u.Quantity) else np.asarray(vals)
            ctx.check(vv.ndim == 1 and same(vv, gv_model(dm), rt),
                      f'get_values {tag} | a later call on the same mask object '
                      'gives different values (call history)',
                      lambda: f'call {k + 2} with mask='
                              f'{"None" if dm is None else "array"}: got '
                              f'{vv.tolist()} want {gv_model(dm).tolist()}')
        for k in range(2):
            mul2 = mask.multiply(data, fill_value=fill)
            ctx.check((mul2 is None) == (mul is None) and (
                mul is None or same(
                    mul2.value if isinstance(mul2, u.Quantity) else mul2,
                    mul.value if isinstance(mul, u.Quantity) else mul)),
                f'multiply {tag} | repeating the call gives a different result')
        # ---- results are the caller's to edit: they are neither windows
        # onto the mask weights nor (cutout(copy=False) apart, which is
        # documented to be a view) onto the image, and editing them does not
        # reach later answers
        def arr(v):
            return None if v is None else (
                v.value if isinstance(v, u.Quantity) else np.asarray(v))
        img_want = None if img is None else np.array(img, copy=True)
        mul_want = None if mul is None else np.array(arr(mul), copy=True)
        for nm, res in (('to_image', img), ('multiply', mul),
                        ('get_values', vals),
                        ('cutout copy=True', cut if spec['copy'] else None)):
            a = arr(res)
            if a is None or a.size == 0:
                continue
            ctx.check(not np.shares_memory(a, mask.data),
                      f'{nm} | result shares memory with the mask weights')
            ctx.check(not np.shares_memory(a, raw),
                      f'{nm} | result shares memory with the input image')
            if a.flags.writeable:
                with np.errstate(all='ignore'):
                    a[...] = np.asarray(-7.25).astype(a.dtype)
                ctx.count('results_edited')
        if img is not None:
            ctx.check(same(mask.to_image((ny, nx)), img_want),
                      'to_image | editing an earlier result changes a later one')
        if mul is not None:
            ctx.check(same(arr(mask.multiply(data, fill_value=fill)), mul_want),
                      f'multiply {tag} | editing an earlier result changes a '
                      'later one')
        vals = mask.get_values(data, mask=None)
        ctx.check(same(arr(vals), gv_model(None), rt),
                  f'get_values {tag} | editing an earlier result changes a '
                  'later one')
        # ---- the same mask object applied to ANOTHER image (a smaller crop,
        # then a larger padded one): the results are those a fresh mask of
        # the same weights and box gives - nothing carries over between images
        from regions import RegionBoundingBox, RegionMask
        if ny >= 2 and nx >= 2 and not isq:
            others = [np.ascontiguousarray(raw[:ny - 1, :nx - 1]) + 1,
                      np.pad(raw, ((0, 2), (0, 3)), mode='edge')]
            for other in others:
                fresh = RegionMask(weights.copy(),
                                   RegionBoundingBox(x0, x1, y0, y1))
                for nm, f in (('multiply', lambda m: m.multiply(
                                   other, fill_value=fill)),
                              ('cutout', lambda m: m.cutout(
                                  other, fill_value=fill, copy=True)),
                              ('get_values', lambda m: m.get_values(other))):
                    a, b = f(mask), f(fresh)
                    ctx.check((a is None) == (b is None) and (
                        a is None or same(arr(a), arr(b))),
                        f'{nm} {tag} | a mask object that was applied to '
                        'another image before gives a different result than a '
                        'fresh mask', f'image shape {other.shape}')
        # ---- inputs untouched
        ctx.check((raw.tobytes(), raw.dtype.str, raw.shape) == before,
                  'input image modified')
        ctx.check(weights.tobytes() == wbefore, 'mask weights modified')
        wz = (weights == 0)
        ctx.nontrivial(bool(model) and len(common) != len(model)
                       and bool(wz.any()) and not bool(wz.all()))


RELATIONS = [Placement()]
