"""C01 - point membership equals the geometric definition of every pixel shape."""
import numpy as np
from hypothesis import strategies as st

from vf import spec as S
from vf.gen import queries as Q
from vf.gen import regions as G
from vf.ref import geometry as ref
from vf.runner import Relation

LEVEL = 'exploration'
RULE = ('Hypothesis draws a pixel-region spec (all 11 simple classes and '
        'and/or/xor compounds to depth 2; sizes log-uniform 1e-3..1e6 px, '
        'axis ratio to 1:100, centres near/aligned/far, angle any '
        'magnitude in deg/rad/arcmin/arcsec/hourangle as Quantity or Angle, '
        'int/float/numpy numeric types, include in {absent,True,False,1,0}) '
        'and a query array placed relative to the region boundary (offsets '
        '1e-12..30 of the size, both sides) laid out as scalar / 0-length / '
        '1-D / 2-D / 3-D / broadcast pair, int or float. Oracle: reference '
        'membership from the definition (vertical-ray even-odd for polygons) '
        'with an explicit float-rounding band; only definite points are '
        'asserted. Non-trivial: the definite answers contain both True and '
        'False (scalar queries: always) and, for rotatable shapes, the angle '
        'is not a multiple of 90 deg. Distinct = distinct spec digests.')
ASSUMPTIONS = [
    'points whose reference margin is inside the rounding band '
    '(64 eps x scale, plus eps*|theta| for huge angles) are skipped and '
    'counted as ambiguous',
]


def _region_strategy(tier):
    sz = G.sizes(1e-3, 1e6)
    # sizes over nine decades INDEPENDENTLY: axis ratios up to 1:1e9
    leaf = G.simple_pixel(sz, max_ratio=1e9)
    small_leaf = G.simple_pixel(G.sizes(0.5, 50.0), cmode='near')
    usual = st.one_of(leaf, leaf, leaf, leaf,
                      G.grid_polygon(),
                      G.compound(small_leaf, max_depth=2))
    # one case in eighty: a finely digitised outline (over a thousand vertices)
    return st.integers(0, 79).flatmap(
        lambda k: G.dense_polygon() if k == 0 else usual)


def _flip_include(spec):
    sp = dict(spec)
    if sp['cls'] == 'CompoundPixelRegion':
        # give the compound its own meta with the flipped flag
        cur = bool(ref._compound_meta(sp).get('include', True))
        sp['meta'] = {'include': not cur}
        return sp
    meta = dict(sp.get('meta') or {})
    meta['include'] = not bool(meta.get('include', True))
    sp['meta'] = meta
    return sp


class Contains(Relation):
    name = 'C01.contains'
    examples = {'quick': 1500, 'thorough': 12000}
    shards = {'quick': 8, 'thorough': 16}

    def strategy(self, tier):
        n = 64 if tier == 'quick' else 400
        return st.fixed_dictionaries({'query': Q.query_strategy(n),
                                      'region': _region_strategy(tier)})

    def check(self, spec, ctx):
        from regions import PixCoord
        rs, q = spec['region'], spec['query']
        cls = rs['cls']
        reg = S.build(rs)
        x, y = Q.materialise(rs, q)
        pc = PixCoord(x, y)
        want_shape = np.broadcast(np.asarray(x), np.asarray(y)).shape
        from vf.fingerprint import fp
        before = (fp(reg), fp(pc))
        ans = reg.contains(pc)
        ctx.check((fp(reg), fp(pc)) == before,
                  f'{cls} | contains modifies the region or the coordinates')
        # the same coordinate OBJECT, its arrays edited in place, asked again:
        # the answers are those of a fresh coordinate with the current values
        if (isinstance(pc.x, np.ndarray) and pc.x.ndim and pc.x.size
                and pc.x.flags.writeable and pc.y.flags.writeable):
            keep = (pc.x.copy(), pc.y.copy())
            try:
                pc.x[...] = pc.x + 3
                pc.y[...] = pc.y - 2
                moved = True
            except (ValueError, TypeError):      # broadcast views etc.
                moved = False
            if moved:
                again = np.asarray(reg.contains(pc))
                fresh = np.asarray(reg.contains(PixCoord(pc.x.copy(),
                                                         pc.y.copy())))
                ctx.check(np.array_equal(again, fresh),
                          f'{cls} | after an in-place edit of the query '
                          'arrays the same coordinate object gets the answers '
                          'of its old values',
                          f'{int((again != fresh).sum())} of {again.size} differ')
                pc.x[...], pc.y[...] = keep
        sig = f"{cls} include={ref._compound_meta(rs).get('include', 'absent') if cls == 'CompoundPixelRegion' else (rs.get('meta') or {}).get('include', 'absent')!r}"
        ctx.label(cls, 'layout:' + q['layout'], 'dtype:' + q['dtype'],
                  G.angle_family(rs), 'num:' + str(rs.get('num')))
        # (b) shape and dtype
        ctx.check(np.shape(ans) == want_shape,
                  f'{cls} | answer shape differs from query shape',
                  f'query shape {want_shape}, answer shape {np.shape(ans)}')
        ctx.check(np.asarray(ans).dtype == np.bool_,
                  f'{cls} | answer dtype is not bool',
                  str(np.asarray(ans).dtype))
        if want_shape == ():
            ctx.check(isinstance(ans, (bool, np.bool_)),
                      f'{cls} | scalar query does not give a plain bool',
                      f'{type(ans).__name__}')
        # (a) definite elements
        xx, yy = np.broadcast_arrays(np.asarray(x, float), np.asarray(y, float))
        want, definite = ref.contains_ref(rs, xx, yy)
        got = np.asarray(ans).reshape(want_shape)
        bad = definite & (got != want)
        n_amb = int((~definite).sum())
        if n_amb:
            ctx.count('ambiguous_points', n_amb)
        ctx.count('points', int(definite.size))
        if bad.any():
            i = np.argwhere(bad)[0]
            i = tuple(int(v) for v in i)
            ctx.fail(f'{sig} | membership differs from the definition',
                     f'point ({xx[i]!r}, {yy[i]!r}): library {bool(got[i])}, '
                     f'reference {bool(want[i])}; {int(bad.sum())} of '
                     f'{bad.size} points')
        # (c) the `in` operator
        if want_shape == ():
            ctx.check(bool(pc in reg) == bool(ans),
                      f'{cls} | `in` differs from contains')
        else:
            try:
                pc in reg
            except ValueError:
                pass
            else:
                ctx.fail(f'{cls} | `in` accepts an array coordinate')
        # (d) complement
        reg2 = S.build(_flip_include(rs))
        ans2 = np.asarray(reg2.contains(pc)).reshape(want_shape)
        bad2 = definite & (ans2 == got)
        if bad2.any():
            ctx.fail(f'{sig} | flipping include does not give the complement',
                     f'{int(bad2.sum())} of {bad2.size} points')
        dv = want[definite]
        rot_ok = G.angle_family(rs) != 'angle:mult90' or cls in (
            'CirclePixelRegion', 'PolygonPixelRegion',
            'CircleAnnulusPixelRegion', 'CompoundPixelRegion')
        if want_shape == ():
            ctx.label(f'scalar:{bool(want)}' if definite.all()
                      else 'scalar:ambiguous')
            ctx.nontrivial(bool(definite.all()) and rot_ok)
        else:
            ctx.nontrivial(dv.size > 0 and dv.any() and not dv.all() and rot_ok)


RELATIONS = [Contains()]
