"""C09 - DS9 serialise->parse round-trips every region, and is a fixed point
thereafter."""
import copy
import math
import warnings

import numpy as np
from hypothesis import strategies as st

from vf import spec as S
from vf.gen import meta as GM
from vf.gen import regions as G
from vf.gen import sky as GS
from vf.runner import Relation

LEVEL = 'exploration'
RULE = ('Hypothesis draws lists of 1-8 regions over the ten DS9 shapes (+ '
        'regular polygon), pixel or sky in image/icrs/fk5/fk4/galactic/'
        'ecliptic, magnitudes over decades and units, precision 1-12, DS9 '
        'metadata (text with spaces ; # =, tags, include in {True,False,1,0}, '
        'the nine binary flags, colours, dash/dashlist, width, fill, font, '
        'point symbol+size, text angle) with controlled sharing across the '
        'list (all equal -> hoisted into `global`, partly, all different) and '
        'mixed frames; optionally compounds / unnamed-frame sky regions as '
        'members to be skipped. Oracles: one region out per supported region '
        'in, class/frame, every number within half a unit of the requested '
        'precision in the serialised unit (semi-axes for ellipses; last '
        'mantissa digit for scientific notation), text/tags/include sense; '
        'parse(ser(P1)) == P1 and ser stable; parsed regions that are then '
        'EDITED (text / tag / include / line width deleted or replaced) '
        'serialise as what they now are; determinism in-process and '
        'across child interpreters with PYTHONHASHSEED 0/1/2; skipped members '
        'leave the rest of the text unchanged. Non-trivial: >= 2 regions with '
        'a hoisted and a non-hoisted item, or include false, or rounding '
        'active, or mixed frames.')
ASSUMPTIONS = [
    'precondition: every size and inner/outer difference is >= 4 units of the '
    'last written decimal in the serialised unit (otherwise the text denotes '
    'a non-positive size): sizes are raised to that minimum by construction',
    'text contains no braces or newlines (DS9 cannot escape them)',
    'FK5 coordinates at another equinox (J1975) are generated too: DS9 cannot '
    'name it, so what must come back is the same place on the sky under fk5',
]

DS9_FRAMES = ['icrs', 'fk5', 'fk4', 'galactic', 'ecliptic']
UNNAMED = ['supergalactic', 'geocentrictrueecliptic',
           'heliocentricmeanecliptic']
SIZE_KEYS = ('radius', 'width', 'height', 'inner_radius', 'outer_radius',
             'inner_width', 'outer_width', 'inner_height', 'outer_height')


def _to_deg(q):
    return q[0] * GS.TO_ARCSEC[q[1]] / 3600.0


def _from_deg(d, unit):
    return [d * 3600.0 / GS.TO_ARCSEC[unit], unit]


def enforce_precondition(rs, p):
    """Raise sizes so that the text denotes positive, ordered sizes."""
    rs = dict(rs)
    m = 4.0 * 10.0 ** (-p)
    sky = rs['cls'].endswith('SkyRegion')
    ell = 2.0 if 'Ellipse' in rs['cls'] else 1.0
    for k in SIZE_KEYS:
        if k in rs:
            if sky:
                d = max(_to_deg(rs[k]), m * ell)
                rs[k] = _from_deg(d, rs[k][1])
            else:
                rs[k] = max(float(rs[k]), m * ell)
    for a, b in (('inner_radius', 'outer_radius'), ('inner_width', 'outer_width'),
                 ('inner_height', 'outer_height')):
        if a in rs:
            if sky:
                ia, ob = _to_deg(rs[a]), _to_deg(rs[b])
                if ob < ia + m * ell:
                    rs[b] = _from_deg(ia + m * ell, rs[b][1])
            else:
                if rs[b] < rs[a] + m * ell:
                    rs[b] = rs[a] + m * ell
    return rs


def region_strategy():
    sz = G.sizes(1e-3, 1e4)
    pix = st.one_of(G.simple_pixel(sz, meta=False))
    sky = GS.simple_sky(GS.angsizes(1e-3, 3.6e4),
                        frames=DS9_FRAMES + ['fk5_j1975'], meta=False)
    return st.one_of(pix, sky, sky)


def decorated():
    def deco(rs):
        def mk(t):
            meta = dict(t[1])
            if t[0]['cls'].startswith('Text'):
                # the text of a text region IS its label
                meta.pop('text', None)
            return dict(t[0], meta=meta, visual=t[2])
        return st.tuples(st.just(rs), GM.ds9_meta(numeric_text=True),
                         GM.ds9_visual(rs['cls'])).map(mk)
    return region_strategy().flatmap(deco)


def unsupported_member():
    near = G.maskable(G.sizes(1, 20), 'near', meta=False)
    comp = G.compound(near, max_depth=1, with_meta=False)
    skyc = GS.compound(GS.circle(GS.angsizes(1, 100), DS9_FRAMES, meta=False),
                       max_depth=1)
    unnamed = GS.simple_sky(GS.angsizes(1, 1000), frames=UNNAMED, meta=False)
    return st.one_of(comp, skyc, unnamed, unnamed)


def apply_sharing(regs, share):
    if share == 'different' or len(regs) < 2:
        return regs
    out = [dict(r) for r in regs]
    src_m, src_v = out[0].get('meta') or {}, out[0].get('visual') or {}
    n = len(out) if share == 'all_equal' else max(2, len(out) // 2)
    for r in out[1:n]:
        m = dict(src_m)
        m.pop('tag', None)
        if 'tag' in (r.get('meta') or {}):
            m['tag'] = r['meta']['tag']
        if r['cls'].startswith('Text'):
            m.pop('text', None)
        r['meta'] = m
        # only keys valid for every shape are shared
        shareable = () if r['cls'].startswith(('Point', 'Text')) \
            else ('linewidth',)
        r['visual'] = {k: v for k, v in src_v.items()
                       if k in shareable} | {
            k: v for k, v in (r.get('visual') or {}).items()
            if k not in ('linewidth',)}
    return out


def frame_name(reg):
    from regions import PixelRegion
    if isinstance(reg, PixelRegion):
        return 'image'
    for k in ('center', 'vertices', 'start'):
        if hasattr(reg, k):
            return getattr(reg, k).frame.name
    return None


def num_tol(x_deg, p, sci_possible):
    """Half a unit of the last written digit."""
    if sci_possible and 0 < abs(x_deg) < 1e-4:
        return 0.5 * 10.0 ** (math.floor(math.log10(abs(x_deg))) - p) * 1.0001 \
            + 1e-300
    return 0.5 * 10.0 ** (-p)


def compare_geometry(ctx, tag, A, B, p):
    """A = original, B = parsed; half-unit tolerance in the serialised unit."""
    import astropy.units as u
    from astropy.coordinates import Angle, SkyCoord
    from regions import PixCoord
    cls = type(A).__name__
    ell = 2.0 if 'Ellipse' in cls else 1.0
    ulp = 8 * 2.0 ** -52
    for par in A._params:
        va, vb = getattr(A, par), getattr(B, par)
        if isinstance(va, PixCoord):
            xa, ya = np.asarray(va.x, float), np.asarray(va.y, float)
            xb, yb = np.asarray(vb.x, float), np.asarray(vb.y, float)
            ctx.check(xa.shape == xb.shape, f'{tag} | {par} changes length')
            tol = 0.5 * 10.0 ** (-p) + ulp * (np.abs(xa) + np.abs(ya) + 2)
            ctx.check(np.all(np.abs(xa - xb) <= tol)
                      and np.all(np.abs(ya - yb) <= tol),
                      f'{tag} | {par} not within half a unit of the precision',
                      lambda: f'p={p}: {(xa, ya)} -> {(xb, yb)}')
        elif isinstance(va, SkyCoord):
            if not va.frame.is_equivalent_frame(vb.frame):
                # same frame name, another equinox: DS9's keyword stands for
                # the default one - what matters is the place on the sky
                # (frame attributes given explicitly: transform_to lets the
                # coordinate's own attributes win over defaults)
                fb = vb.frame
                va = va.transform_to(type(fb)(**{a: getattr(fb, a)
                                                 for a in fb.frame_attributes}))
                ctx.label('equinox:non-default')
            la, ba = np.asarray(va.spherical.lon.deg), np.asarray(va.spherical.lat.deg)
            lb, bb = np.asarray(vb.spherical.lon.deg), np.asarray(vb.spherical.lat.deg)
            ctx.check(la.shape == lb.shape, f'{tag} | {par} changes length')
            dl = np.abs(np.vectorize(math.remainder)(la - lb, 360.0))
            tol = 0.5 * 10.0 ** (-p) + ulp * 400
            ctx.check(np.all(dl <= tol) and np.all(np.abs(ba - bb) <= tol),
                      f'{tag} | {par} not within half a unit of the precision',
                      lambda: f'p={p}: lon {la} -> {lb}, lat {ba} -> {bb}')
        elif isinstance(va, u.Quantity):
            xa, xb = va.to_value(u.deg), vb.to_value(u.deg)
            if par == 'angle':
                tol = num_tol(xa, p, not isinstance(va, Angle))
                k = 1.0
            else:
                k = ell
                tol = k * num_tol(xa / k, p, not isinstance(va, Angle))
            ctx.check(abs(xa - xb) <= tol + ulp * abs(xa),
                      f'{tag} | {par} not within half a unit of the precision',
                      f'p={p}: {xa!r} deg -> {xb!r} deg (tol {tol:.3e})')
        elif isinstance(va, str):
            ctx.check(va == vb, f'{tag} | {par} (string) changes',
                      f'{va!r} -> {vb!r}')
        else:
            k = ell if par != 'nvertices' else 1.0
            tol = k * 0.5 * 10.0 ** (-p)
            ctx.check(abs(float(va) - float(vb)) <= tol + ulp * abs(float(va)),
                      f'{tag} | {par} not within half a unit of the precision',
                      f'p={p}: {va!r} -> {vb!r}')


class RoundTrip(Relation):
    _edited = None
    name = 'C09.roundtrip'
    examples = {'quick': 300, 'thorough': 5000}
    shards = {'quick': 8, 'thorough': 16}

    def strategy(self, tier):
        n = 6 if tier == 'quick' else 8
        return st.fixed_dictionaries({
            'precision': st.integers(1, 12),
            'share': st.sampled_from(['different', 'all_equal', 'partly']),
            'regions': st.lists(decorated(), min_size=1, max_size=n),
            'edits': st.lists(st.integers(0, 8), min_size=1, max_size=n),
            # text labels given to the whole LIST, in order: the delimiter one
            # label needs ({} "" '') must not carry over to the next region
            'texts': st.one_of(st.none(), st.none(), st.lists(
                st.sampled_from(['a}', 'say "hi"', "it's", 'plain', '{x}',
                                 'a}"', "x' y", '30"']),
                min_size=2, max_size=n)),
        })

    def check(self, sp, ctx):
        from regions import Regions
        p = sp['precision']
        specs = [enforce_precondition(r, p) for r in sp['regions']]
        specs = apply_sharing(specs, sp['share'])
        if sp.get('texts'):
            ctx.label('list-texts')
            specs = [r if r['cls'].startswith('Text') else dict(r, meta=dict(
                r.get('meta') or {}, text=sp['texts'][i % len(sp['texts'])]))
                for i, r in enumerate(specs)]
        regs = [S.build(r) for r in specs]
        text = Regions(regs).serialize(format='ds9', precision=p)
        ctx.check(isinstance(text, str) and text.startswith('# Region file '
                                                           'format: DS9'),
                  'serialize | no DS9 header')
        P1 = Regions.parse(text, format='ds9')
        frames = {frame_name(r) for r in regs}
        ctx.label('n:%d' % len(regs), 'share:' + sp['share'],
                  'frames:%d' % len(frames), 'p:%d' % p)
        ctx.check(len(P1) == len(regs),
                  'count | number of regions changes in the round trip',
                  f'{len(regs)} -> {len(P1)}\n{text}')
        nt = len(frames) > 1
        for i, (A, B, rs) in enumerate(zip(regs, P1, specs)):
            cls = type(A).__name__
            want_cls = cls.replace('RegularPolygon', 'Polygon')
            tag = want_cls
            ctx.check(type(B).__name__ == want_cls,
                      f'{cls} | class changes in the round trip',
                      f'-> {type(B).__name__}')
            ctx.check(frame_name(B) == frame_name(A),
                      f'{tag} | frame changes in the round trip',
                      f'{frame_name(A)} -> {frame_name(B)}')
            if cls == 'RegularPolygonPixelRegion':
                A = A.to_polygon()
            compare_geometry(ctx, tag, A, B, p)
            ma = A.meta
            # (b) text / tags / include sense
            if 'text' in ma and not cls.startswith('Text'):
                ctx.check(B.meta.get('text') == ma['text']
                          and isinstance(B.meta.get('text'), str),
                          f'{tag} | text label changes in the round trip',
                          f'{ma["text"]!r} -> {B.meta.get("text")!r}')
            if 'tag' in ma:
                ctx.check(B.meta.get('tag') == list(ma['tag']),
                          f'{tag} | tags change in the round trip',
                          f'{ma["tag"]!r} -> {B.meta.get("tag")!r}')
            inc_a = bool(ma.get('include', True))
            inc_b = bool(B.meta.get('include', True))
            ctx.check(inc_a == inc_b,
                      f'{tag} include={ma.get("include", "absent")!r} '
                      f'share={sp["share"] if len(regs) > 1 else "single"} | '
                      'include/exclude sense changes in the round trip',
                      f'{text}')
            for fl in GM.DS9_FLAGS:
                if fl in ma:
                    ctx.check(B.meta.get(fl) == ma[fl],
                              f'{tag} | flag {fl} changes in the round trip',
                              f'{ma[fl]!r} -> {B.meta.get(fl)!r}')
            if not inc_a:
                nt = True
            # visual attributes DS9 can express survive (values compared as
            # strings: the reader returns e.g. the point size as text)
            for k, v in A.visual.items():
                if k == 'default_style':
                    continue
                got = B.visual.get(k)
                if k == 'linewidth' and cls.startswith('Point'):
                    # a point's DS9 "width" is its marker edge width
                    got = B.visual.get('markeredgewidth')
                if k == 'linewidth' and cls.startswith('Text'):
                    continue    # not a property of a text label
                ctx.check(got is not None and _vnorm(got) == _vnorm(v),
                          f'{tag} | visual {k} changes in the round trip',
                          f'{v!r} -> {got!r}')
        # (c) fixed point
        text2 = P1.serialize(format='ds9', precision=p)
        P2 = Regions.parse(text2, format='ds9')
        ctx.check(len(P2) == len(P1), 'fixed point | count changes')
        for A, B in zip(P1, P2):
            if not (A == B):
                if _at_notation_threshold(A, B, p):
                    # known finding C09-sci-notation-threshold (narrow key)
                    ctx.fail('fixed point | a Quantity that reads back as '
                             'exactly 1e-4 deg switches from scientific to '
                             'positional notation', _diff(A, B))
                ctx.fail(f'{type(A).__name__} | parse(serialize(P1)) != P1',
                         _diff(A, B))
        text3 = P2.serialize(format='ds9', precision=p)
        from vf.ops import parsed_independent
        import warnings as _w
        with _w.catch_warnings():
            _w.simplefilter('ignore')
            parsed_independent(ctx, P2, lambda: Regions.parse(
                text2, format='ds9'), 'parse')
        ctx.check(text3 == text2, 'fixed point | serialising again changes the '
                  'text', lambda: _textdiff(text2, text3))
        # (e) parsed regions are ordinary regions: edited (entries deleted
        # or replaced), they serialise as what they NOW are
        self._edited(ctx, sp, P2, p)
        # (d) determinism in-process
        again = Regions([S.build(r) for r in specs]).serialize(format='ds9',
                                                               precision=p)
        ctx.check(again == text, 'determinism | same regions give a different '
                  'text the second time', lambda: _textdiff(text, again))
        if len(regs) >= 2 and 'global' in text:
            nt = nt or sp['share'] == 'partly'
        ctx.nontrivial(nt or p <= 6)


def _edit_parsed(reg, kind):
    """Edit a parsed region in place; returns a label or None (no-op)."""
    cls = type(reg).__name__
    m, v = reg.meta, reg.visual
    if kind == 1 and 'text' in m and not cls.startswith('Text'):
        del m['text']
        return 'del text'
    if kind == 2 and 'tag' in m:
        del m['tag']
        return 'del tag'
    if kind == 3 and 'include' in m:
        del m['include']
        return 'del include'
    if kind == 4 and not cls.startswith('Text'):
        m['text'] = 'edited later'
        return 'set text'
    if kind == 5:
        m['include'] = not bool(m.get('include', True))
        return 'flip include'
    if kind == 6 and 'linewidth' in v and not cls.startswith(('Text', 'Point')):
        del v['linewidth']
        return 'del linewidth'
    if kind == 7:
        m['tag'] = ['new tag']
        return 'set tag'
    if kind == 8:
        # the same place on the sky, now written in another frame
        from astropy.coordinates import SkyCoord
        done = False
        for par in ('center', 'vertices', 'start', 'end'):
            val = getattr(reg, par, None)
            if isinstance(val, SkyCoord):
                new = {'galactic': 'icrs', 'icrs': 'galactic',
                       'fk5': 'galactic', 'fk4': 'icrs'}.get(val.frame.name)
                if new is None:
                    continue
                setattr(reg, par, val.transform_to(new))
                done = True
        return 'reframe' if done else None
    return None


def _is_sky(v):
    from astropy.coordinates import SkyCoord
    return isinstance(v, SkyCoord)


def _edited(self, ctx, sp, P2, p):
    from regions import Regions
    E = list(P2)
    kinds = sp.get('edits') or [0]
    done = []
    reframed = set()
    for i, reg in enumerate(E):
        lab = _edit_parsed(reg, kinds[i % len(kinds)])
        if lab:
            done.append(lab)
        if lab == 'reframe':
            reframed.add(i)
    if not done:
        return
    ctx.label(*{'edit:' + d for d in done})
    textE = Regions(E).serialize(format='ds9', precision=p)
    PE = Regions.parse(textE, format='ds9')
    ctx.check(len(PE) == len(E), 'edited | count changes in the round trip of '
              'edited parsed regions', textE)
    for i, (A, B) in enumerate(zip(E, PE)):
        tag = type(A).__name__
        ctx.check(type(A) is type(B), f'{tag} | edited: class changes')
        same = True
        for par in A._params:
            if i in reframed and _is_sky(getattr(A, par)):
                # the edited position has all its digits: what comes back
                # is the same place, in the frame it now has, to the
                # precision asked for
                a, b = getattr(A, par), getattr(B, par, None)
                ok = (_is_sky(b) and b.frame.name == a.frame.name
                      and np.shape(b) == np.shape(a))
                ctx.check(ok, f'{tag} | edited: {par} of a parsed region '
                          'moved to another frame comes back in a different '
                          'frame', lambda: f'{a!r}\n{b!r}\n{textE}')
                if ok:
                    sep = np.max(np.atleast_1d(a.separation(b).deg))
                    ctx.check(sep <= 1.01 * 10.0 ** -p + 1e-10,
                              f'{tag} | edited: {par} of a parsed region moved '
                              'to another frame is another place on the sky '
                              'after the round trip',
                              lambda: f'{sep} deg\n{a!r}\n{b!r}\n{textE}')
                continue
            try:
                same = same and not np.any(getattr(A, par) != getattr(B, par))
            except Exception:   # noqa: BLE001
                same = False
        ctx.check(same or _at_notation_threshold(A, B, p),
                  f'{tag} | edited: parameters of a parsed region change when '
                  'it is serialised again after a metadata edit',
                  lambda: _diff(A, B))
        if not tag.startswith('Text'):
            ctx.check(B.meta.get('text') == A.meta.get('text'),
                      f'{tag} | edited: text label of an edited parsed region '
                      'is not the one it now has',
                      f'{A.meta.get("text")!r} -> {B.meta.get("text")!r}')
        ctx.check((B.meta.get('tag') or []) == (A.meta.get('tag') or []),
                  f'{tag} | edited: tags of an edited parsed region are not '
                  'the ones it now has',
                  f'{A.meta.get("tag")!r} -> {B.meta.get("tag")!r}')
        ctx.check(bool(A.meta.get('include', True))
                  == bool(B.meta.get('include', True)),
                  f'{tag} | edited: include sense of an edited parsed region '
                  'is not the one it now has', textE)
        if 'linewidth' not in A.visual and not tag.startswith(('Text', 'Point')):
            ctx.check('linewidth' not in B.visual,
                      f'{tag} | edited: a deleted line width comes back',
                      f'{B.visual.get("linewidth")!r}\n{textE}')


RoundTrip._edited = _edited


def _at_notation_threshold(A, B, p):
    """True when A and B differ ONLY in angular quantities whose value in A
    is exactly 1e-4 deg (written '1.0..e-04' the first time, positionally -
    with only p decimals - the second time)."""
    import astropy.units as u
    hit = False
    for par in list(A._params):
        va, vb = getattr(A, par), getattr(B, par)
        if isinstance(va, u.Quantity) and not isinstance(
                va, __import__('astropy.coordinates').coordinates.Angle):
            if va != vb:
                k = 2.0 if ('Ellipse' in type(A).__name__
                            and par != 'angle') else 1.0
                if abs(va.to_value(u.deg) / k) == 1e-4 and p < 4:
                    hit = True
                else:
                    return False
        else:
            try:
                if np.any(va != vb):
                    return False
            except Exception:   # noqa: BLE001
                return False
    return hit and dict(A.meta) == dict(B.meta) and dict(A.visual) == dict(B.visual)


def _vnorm(v):
    if isinstance(v, (tuple, list)):
        return [_vnorm(x) for x in v]
    if isinstance(v, bool):
        return str(int(v))
    if isinstance(v, float) and v.is_integer():
        return str(int(v))
    if isinstance(v, str):
        # the reader hands some numbers back as text: '12.0' is 12
        try:
            f = float(v)
            if f.is_integer():
                return str(int(f))
        except ValueError:
            pass
    return str(v)


def _diff(A, B):
    out = []
    for par in list(A._params) + ['meta', 'visual']:
        va, vb = getattr(A, par), getattr(B, par)
        try:
            same = not np.any(va != vb)
        except Exception:   # noqa: BLE001
            same = False
        if not same:
            out.append(f'{par}: {va!r} vs {vb!r}')
    return '; '.join(out)[:600]


def _textdiff(a, b):
    la, lb = a.splitlines(), b.splitlines()
    for x, y in zip(la, lb):
        if x != y:
            return f'{x!r} vs {y!r}'
    return f'{len(la)} vs {len(lb)} lines'


class Skip(Relation):
    """Members DS9 cannot express are skipped with a warning without altering
    the output of the others."""
    name = 'C09.skip_unsupported'
    examples = {'quick': 150, 'thorough': 2000}
    shards = {'quick': 4, 'thorough': 8}

    def strategy(self, tier):
        return st.fixed_dictionaries({
            'precision': st.integers(1, 10),
            'regions': st.lists(decorated(), min_size=0, max_size=4),
            'bad': st.lists(unsupported_member(), min_size=1, max_size=2),
            'pos': st.lists(st.integers(0, 5), min_size=2, max_size=2),
        })

    def check(self, sp, ctx):
        from astropy.utils.exceptions import AstropyUserWarning
        from regions import Regions
        p = sp['precision']
        good = [enforce_precondition(r, p) for r in sp['regions']]
        mixed = list(good)
        for b, pos in zip(sp['bad'], sp['pos']):
            mixed.insert(min(pos, len(mixed)), b)
        kinds = sorted({b['cls'] if b['cls'].startswith('Compound')
                        else 'unnamed-frame' for b in sp['bad']})
        ctx.label(*kinds)
        want = Regions([S.build(r) for r in good]).serialize(format='ds9',
                                                            precision=p)
        regs = [S.build(r) for r in mixed]
        with warnings.catch_warnings(record=True) as rec:
            warnings.simplefilter('always')
            got = Regions(regs).serialize(format='ds9', precision=p)
        tag = '+'.join(kinds)
        ctx.check(any(issubclass(w.category, AstropyUserWarning) for w in rec),
                  f'{tag} | unsupported member skipped without a warning')
        ctx.check(got == want,
                  f'{tag} | skipping an unsupported member alters the output '
                  'of the others', lambda: _textdiff(want, got))
        back = Regions.parse(got, format='ds9')
        ctx.check(len(back) == len(good),
                  f'{tag} | wrong number of regions after skipping')
        ctx.nontrivial(len(good) >= 1)


class HashSeed(Relation):
    """Serialising is deterministic across interpreters (hash seeds)."""
    name = 'C09.hashseed'
    examples = {'quick': 3, 'thorough': 20}
    shards = {'quick': 4, 'thorough': 8}
    budget_s = {'quick': 200, 'thorough': 1500}

    def strategy(self, tier):
        return st.fixed_dictionaries({
            'precision': st.integers(3, 10),
            'regions': st.lists(decorated(), min_size=2, max_size=4),
        })

    def check(self, sp, ctx):
        from vf.child import spawn
        p = sp['precision']
        specs = [enforce_precondition(r, p) for r in sp['regions']]
        specs = apply_sharing(specs, 'all_equal')
        job = {'op': 'serialize', 'args': {'regions': specs, 'format': 'ds9',
                                           'kwargs': {'precision': p}}}
        texts = []
        for hs in (0, 1, 2):
            r = spawn(job, hashseed=hs)
            ctx.check(r['ok'], 'child | serialise fails in a fresh interpreter',
                      r.get('error', ''))
            texts.append(r['result'])
        ctx.check(texts[0] == texts[1] == texts[2],
                  'determinism | text depends on PYTHONHASHSEED',
                  lambda: _textdiff(texts[0], texts[1]) + ' | '
                  + _textdiff(texts[0], texts[2]))
        ctx.nontrivial('global' in texts[0])


RELATIONS = [RoundTrip(), Skip(), HashSeed()]
