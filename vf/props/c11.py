"""C11 - CRTF text round-trips and is read according to the CASA conventions."""
import copy
import math
import warnings

import numpy as np
from hypothesis import strategies as st

from vf import spec as S
from vf.gen import regions as G
from vf.gen import sky as GS
from vf.runner import Relation

LEVEL = 'exploration'
RULE = ('C11.roundtrip: Hypothesis draws one or more CRTF-representable '
        'regions (circle, circle annulus, ellipse, rotated box, polygon / '
        'regular polygon, line, text, point with symbol) as pixel regions '
        '(coordsys image) or sky regions in fk5/fk4/icrs/galactic/'
        'supergalactic/geocentrictrueecliptic with coordsys any of those, fmt '
        '.1f-.10f, radunit deg/arcsec/arcmin/rad and CRTF metadata (label, '
        'color, linewidth, linestyle, symsize, symthick, font, fontsize, '
        'fontstyle, usetex, range, corr, frame, veltype, restfreq, type=ann, '
        'include). Oracles: one region per region, same class, geometry within '
        'half a unit of fmt in the written unit (semi-axes for ellipses), '
        'include sense, type, label/text, metadata; parse->serialise->parse '
        'fixed point; parsed regions that are then EDITED (label / corr / '
        'range / include / type / colour / line width deleted or replaced) '
        'serialise as what they now are; the caller\'s regions are not '
        'modified. C11.read: '
        'abstract CRTF files (global line, every definition incl. box / '
        'centerbox / rotbox / poly / annulus / symbol / text, +/- and ann '
        'prefixes, coord=, degree / h:m:s / d.m.s / hms / pix / rad notations, '
        'inline keys overriding global ones, lengths with and without units) '
        'rendered to text and compared with a reference interpreter of the '
        'CASA rules. Non-trivial: include false or ann, non-default '
        'radunit/fmt, or a coordsys different from the region\'s own frame.')
ASSUMPTIONS = [
    'precondition: every size (and inner/outer difference) is at least 4 '
    'units of the last decimal of fmt in radunit; sizes are raised to that '
    'minimum by construction',
    'known CRTF writer defects (listed in known_findings.json) are excluded '
    'by key and probed separately',
]

SKY_FRAMES = ['fk5', 'fk4', 'icrs', 'galactic', 'supergalactic',
              'geocentrictrueecliptic']
# frames a region's coordinates may be in (FK5 at another equinox too: CRTF
# cannot name it, what must come back is the same place on the sky)
REGION_FRAMES = SKY_FRAMES + ['fk5_j1975']
RADUNITS = {'deg': 1.0, 'arcsec': 3600.0, 'arcmin': 60.0, 'rad': math.pi / 180}
SYMBOLS = ['.', 'o', 'v', '^', '<', '>', 's', 'p', '*', 'h', 'H', '+', 'x',
           'D', 'd', '|', '_', '1', '2']


# strings of text regions: the CRTF string is everything between the first
# and the last quote character of the last field, so quote characters, commas
# and spaces inside - also at either end - are the string's own ('[' and '='
# are not generated: the line grammar splits on them and CRTF has no escape)
TEXTS = ['a', 'hello world', '', "3'", '30"', "'quoted'", '"M 31" field',
         "it's", 'a, b', 'hash # tag', ' lead', 'trail ', 'a]b', 'über',
         'a\\b', "5' x 3'",
         # characters str.splitlines() - not CRTF - takes for line ends
         'form\x0cfeed', 'NGC 1\u2028field', 'x\x85y', 'gs\x1dz', 'a\x0bb']


# labels are quoted strings: commas, brackets, '=', blanks at either end and
# ONE kind of quote character are the label's own (a label with both kinds
# of quote cannot be written: CRTF has no escape)
LABELS = ['lab', 'my label', 'A-1', 'x y z', "3'", '30"', "it's", 'a, b',
          ' lead', 'trail ', 'a]b', 'a [b]', 'k=v', '"M 31" field', 'über',
          'hash # tag', 'form\x0cfeed', 'NGC 1\u2028field', 'x\x85y',
          'gs\x1dz', 'p\u2029q',
          # braces (LaTeX labels): the writer must not read them as a format
          '$\\alpha_{1}$', '{a b}', '{0}', 'x}{y']


def crtf_meta():
    return st.fixed_dictionaries({}, optional={
        'label': st.sampled_from(LABELS),
        'include': st.sampled_from([True, False]),
        'type': st.sampled_from(['reg', 'ann']),
        'frame': st.sampled_from(['TOPO', 'LSRK', 'BARY']),
        'veltype': st.sampled_from(['RADIO', 'OPTICAL']),
        'restfreq': st.sampled_from(['1.42GHz', '115.27GHz']),
        'range': st.sampled_from([['1GHz', '2GHz'], ['100km/s', '300km/s'],
                                  # a narrow band: all the digits matter
                                  ['1.4204057517GHz', '1.4204067517GHz']]),
        'corr': st.sampled_from([['I'], ['I', 'Q'], ['XX', 'YY']]),
    })


def crtf_visual(cls):
    opt = {'color': st.sampled_from(['red', 'blue', 'green', '#ff00aa']),
           'linewidth': st.sampled_from(['1', '2', '3']),
           'linestyle': st.sampled_from(['-', '--', ':']),
           'font': st.sampled_from(['Helvetica', 'Times']),
           'fontsize': st.sampled_from(['10', '12']),
           'fontstyle': st.sampled_from(['normal', 'bold', 'italic']),
           'usetex': st.sampled_from(['True', 'False']),
           'symsize': st.sampled_from(['1', '4']),
           'symthick': st.sampled_from(['1', '2'])}
    if cls.startswith('Point'):
        return st.tuples(st.fixed_dictionaries({}, optional=opt),
                         st.sampled_from(SYMBOLS)).map(
            lambda t: dict(t[0], symbol=t[1]))
    return st.fixed_dictionaries({}, optional=opt)


CLASSES = ['Circle', 'CircleAnnulus', 'Ellipse', 'Rectangle', 'Polygon',
           'Line', 'Text', 'Point']


def region_strategy():
    sz = G.sizes(1e-2, 1e3)
    pix = st.one_of(G.circle(sz, 'near', False), G.circle_annulus(sz, 'near', False),
                    G.ellipse(sz, 'near', False), G.rectangle(sz, 'near', False),
                    G.polygon(sz, 'near', False, 8),
                    G.regular_polygon(sz, 'near', False, 8),
                    G.line('near', False), G.text('near', False),
                    G.point('near', False))
    asz = GS.angsizes(0.5, 3.6e4)
    sky = st.one_of(GS.circle(asz, REGION_FRAMES, False),
                    GS.circle_annulus(asz, REGION_FRAMES, False),
                    GS.ellipse(asz, REGION_FRAMES, False),
                    GS.rectangle(asz, REGION_FRAMES, False),
                    GS.polygon(REGION_FRAMES, False), GS.line(REGION_FRAMES, False),
                    GS.text(REGION_FRAMES, False), GS.point(REGION_FRAMES, False))

    def deco(rs):
        def mk(t):
            meta = dict(t[1])
            base = t[0]
            if base['cls'].startswith('Text'):
                meta.pop('label', None)     # the label of a text IS its text
                base = dict(base, text=t[3])
            return dict(base, meta=meta, visual=t[2])
        return st.tuples(st.just(rs), crtf_meta(), crtf_visual(rs['cls']),
                         st.sampled_from(TEXTS)).map(mk)
    return st.one_of(pix, sky, sky).flatmap(deco)


SIZE_KEYS = ('radius', 'width', 'height', 'inner_radius', 'outer_radius')


def enforce(rs, fmt_nd, radunit):
    """Raise sizes to 4 units of the last written decimal (in radunit)."""
    rs = dict(rs)
    sky = rs['cls'].endswith('SkyRegion')
    ell = 2.0 if 'Ellipse' in rs['cls'] else 1.0
    unit = 10.0 ** (-fmt_nd)
    if sky:
        m_deg = 4 * unit / RADUNITS[radunit] * ell
        for k in SIZE_KEYS:
            if k in rs:
                d = max(rs[k][0] * GS.TO_ARCSEC[rs[k][1]] / 3600.0, m_deg)
                rs[k] = [d * 3600.0 / GS.TO_ARCSEC[rs[k][1]], rs[k][1]]
        if 'inner_radius' in rs:
            ia = rs['inner_radius'][0] * GS.TO_ARCSEC[rs['inner_radius'][1]] / 3600
            ob = rs['outer_radius'][0] * GS.TO_ARCSEC[rs['outer_radius'][1]] / 3600
            if ob < ia + m_deg:
                rs['outer_radius'] = [(ia + m_deg) * 3600
                                      / GS.TO_ARCSEC[rs['outer_radius'][1]],
                                      rs['outer_radius'][1]]
    else:
        m = 4 * unit * ell
        for k in SIZE_KEYS:
            if k in rs:
                rs[k] = max(float(rs[k]), m)
        if 'inner_radius' in rs and rs['outer_radius'] < rs['inner_radius'] + m:
            rs['outer_radius'] = rs['inner_radius'] + m
    return rs


def compare(ctx, tag, A, B, nd, radunit, coordsys):
    """A original, B parsed.  Half a unit of fmt in the written unit."""
    import astropy.units as u
    from astropy.coordinates import SkyCoord
    from regions import PixCoord
    half = 0.5 * 10.0 ** (-nd)
    ell = 2.0 if 'Ellipse' in type(A).__name__ else 1.0
    ulp = 16 * 2.0 ** -52
    for par in A._params:
        va, vb = getattr(A, par), getattr(B, par)
        if isinstance(va, PixCoord):
            xa, ya = np.asarray(va.x, float), np.asarray(va.y, float)
            xb, yb = np.asarray(vb.x, float), np.asarray(vb.y, float)
            ctx.check(xa.shape == xb.shape, f'{tag} | {par} changes length')
            tol = half + ulp * (np.abs(xa) + np.abs(ya) + 1)
            ctx.check(np.all(np.abs(xa - xb) <= tol)
                      and np.all(np.abs(ya - yb) <= tol),
                      f'{tag} | {par} not within half a unit of fmt',
                      lambda: f'{(xa, ya)} -> {(xb, yb)}')
        elif isinstance(va, SkyCoord):
            fr = vb.frame
            # (attributes given explicitly: transform_to lets the
            # coordinate's own equinox win over frame defaults)
            vt = va.transform_to(type(fr)(**{a: getattr(fr, a)
                                             for a in fr.frame_attributes}))
            la, ba = np.asarray(vt.spherical.lon.deg), np.asarray(vt.spherical.lat.deg)
            lb, bb = np.asarray(vb.spherical.lon.deg), np.asarray(vb.spherical.lat.deg)
            ctx.check(la.shape == lb.shape, f'{tag} | {par} changes length')
            dl = np.abs(np.vectorize(math.remainder)(la - lb, 360.0))
            tol = half + 1e-9
            ctx.check(np.all(dl <= tol) and np.all(np.abs(ba - bb) <= tol),
                      f'{tag} | {par} not within half a unit of fmt (deg)',
                      lambda: f'lon {la}->{lb} lat {ba}->{bb}')
        elif isinstance(va, u.Quantity):
            if par == 'angle':
                xa, xb = va.to_value(u.deg), vb.to_value(u.deg)
                ctx.check(abs(xa - xb) <= half + ulp * abs(xa),
                          f'{tag} | angle not within half a unit of fmt',
                          f'{xa!r} -> {xb!r}')
            else:
                f = RADUNITS[radunit]
                xa, xb = va.to_value(u.deg) * f, vb.to_value(u.deg) * f
                ctx.check(abs(xa - xb) <= ell * half + ulp * abs(xa) + 1e-12,
                          f'{tag} | {par} not within half a unit of fmt in '
                          f'{radunit}', f'{xa!r} -> {xb!r}')
        elif isinstance(va, str):
            ctx.check(va == vb, f'{tag} | {par} (string) changes',
                      f'{va!r} -> {vb!r}')
        else:
            ctx.check(abs(float(va) - float(vb)) <= ell * half + ulp * abs(float(va)),
                      f'{tag} | {par} not within half a unit of fmt',
                      f'{va!r} -> {vb!r}')


META_KEYS = ('frame', 'veltype', 'restfreq', 'corr')
VIS_KEYS = ('color', 'linewidth', 'linestyle', 'font', 'fontsize', 'fontstyle',
            'usetex', 'symsize', 'symthick', 'symbol')


class RoundTrip(Relation):
    name = 'C11.roundtrip'
    examples = {'quick': 300, 'thorough': 4000}
    shards = {'quick': 8, 'thorough': 16}

    def strategy(self, tier):
        return st.fixed_dictionaries({
            'nd': st.integers(1, 10),
            'radunit': st.sampled_from(['deg', 'arcsec', 'arcmin', 'rad']),
            'coordsys': st.sampled_from(SKY_FRAMES),
            'own_frame': st.booleans(),
            'regions': st.lists(region_strategy(), min_size=1, max_size=4),
            'edits': st.lists(st.integers(0, 9), min_size=1, max_size=4),
            # labels given to the whole LIST (in order): what one region's
            # label needs - which quote character - must not carry over to
            # the next region written by the same call
            'labels': st.one_of(st.none(), st.none(), st.lists(
                st.sampled_from(["it's", '30"', "3'", '"M 31" field', 'plain',
                                 'a, b', "x' y", 'say "hi"']),
                min_size=2, max_size=4)),
        })

    def check(self, sp, ctx):
        from regions import Regions
        from vf.fingerprint import fp
        nd = sp['nd']
        fmt = f'.{nd}f'
        specs = list(sp['regions'])
        # pixel and sky regions cannot share one coordsys: keep the kind of
        # the first region
        sky = specs[0]['cls'].endswith('SkyRegion')
        specs = [r for r in specs if r['cls'].endswith('SkyRegion') == sky]
        radunit = sp['radunit'] if sky else 'deg'
        if sky:
            coordsys = sp['coordsys']
            if sp['own_frame']:
                coordsys = _frame_of(specs[0]).replace('fk5_j1975', 'fk5')
        else:
            coordsys = 'image'
        if not sp.get('probe'):
            # known CRTF writer defects, excluded by construction (each has a
            # probe in known_findings.json): pixel polygons/lines are written
            # with deg units the reader cannot use; a pair of lengths in
            # arcsec is written with " which the coordinate regex rejects
            keep = []
            for r in specs:
                shp = r['cls'].replace('PixelRegion', '').replace('SkyRegion', '')
                if not sky and shp in ('Polygon', 'RegularPolygon', 'Line'):
                    ctx.count('excluded_known_pixel_poly_line')
                    continue
                if radunit == 'arcsec' and shp in ('CircleAnnulus', 'Ellipse',
                                                   'Rectangle'):
                    ctx.count('excluded_known_arcsec_pair')
                    continue
                keep.append(r)
            specs = keep
            if not specs:
                return
        specs = [enforce(r, nd, radunit) for r in specs]
        if sp.get('labels'):
            ctx.label('list-labels')
            specs = [r if r['cls'].startswith('Text') else dict(r, meta=dict(
                r.get('meta') or {}, label=sp['labels'][i % len(sp['labels'])]))
                for i, r in enumerate(specs)]
        regs = [S.build(r) for r in specs]
        before = [fp(r) for r in regs]
        opts = dict(coordsys=coordsys, fmt=fmt, radunit=radunit)
        osig = (f"{'sky' if sky else 'pixel'} radunit={radunit}")
        ctx.label(osig, *[type(r).__name__ for r in regs])
        try:
            text = Regions(regs).serialize(format='crtf', **opts)
        except Exception as e:   # noqa: BLE001
            from vf.runner import classify_exception
            ctx.fail(f'{"+".join(sorted({type(r).__name__ for r in regs}))} '
                     f'{osig} | serialize {classify_exception(e)}', str(e)[:200])
        ctx.check([fp(r) for r in regs] == before,
                  'serialize | modifies the caller\'s regions (meta/visual)',
                  lambda: _which_changed(regs, before))
        try:
            P1 = Regions.parse(text, format='crtf')
        except Exception as e:   # noqa: BLE001
            from vf.runner import classify_exception
            ctx.fail(f'{"+".join(sorted({type(r).__name__ for r in regs}))} '
                     f'{osig} | parse of the written text '
                     f'{classify_exception(e)}', f'{str(e)[:150]}\n{text[:400]}')
        ctx.check(len(P1) == len(regs), 'count | number of regions changes',
                  f'{len(regs)} -> {len(P1)}\n{text[:400]}')
        nt = not sp['own_frame'] or nd != 6 or radunit != 'deg'
        for A, B, rs in zip(regs, P1, specs):
            cls = type(A).__name__
            want = cls.replace('RegularPolygon', 'Polygon')
            tag = f'{want} {osig}'
            ctx.check(type(B).__name__ == want, f'{tag} | class changes',
                      f'-> {type(B).__name__}\n{text[:300]}')
            if cls == 'RegularPolygonPixelRegion':
                A = A.to_polygon()
            compare(ctx, tag, A, B, nd, radunit, coordsys)
            m = rs.get('meta') or {}
            v = rs.get('visual') or {}
            ctx.check(bool(B.meta.get('include', True)) == bool(m.get('include', True)),
                      f'{tag} | include/exclude sense changes',
                      f"{m.get('include', 'absent')!r} -> {B.meta.get('include')!r}")
            ctx.check(B.meta.get('type', 'reg') == m.get('type', 'reg'),
                      f'{tag} | annotation type changes',
                      f"{m.get('type')!r} -> {B.meta.get('type')!r}")
            if 'label' in m:
                ctx.check(B.meta.get('label') == m['label'],
                          f'{tag} | label changes',
                          f"{m['label']!r} -> {B.meta.get('label')!r}")
            for k in META_KEYS:
                if k in m:
                    ctx.check(B.meta.get(k) == m[k],
                              f'{tag} | meta {k} changes',
                              f'{m[k]!r} -> {B.meta.get(k)!r}')
            if 'range' in m:
                got = [str(x).replace(' ', '') for x in B.meta.get('range', [])]
                want_r = [str(_q(x)).replace(' ', '') for x in m['range']]
                ctx.check(got == want_r, f'{tag} | meta range changes',
                          f'{want_r} -> {got}')
            for k in VIS_KEYS:
                if k in v:
                    ctx.check(str(B.visual.get(k)) == str(v[k]),
                              f'{tag} | visual {k} changes',
                              f'{v[k]!r} -> {B.visual.get(k)!r}')
            if not bool(m.get('include', True)) or m.get('type') == 'ann':
                nt = True
        # fixed point
        text2 = P1.serialize(format='crtf', **opts)
        P2 = Regions.parse(text2, format='crtf')
        ctx.check(len(P2) == len(P1), 'fixed point | count changes')
        for A, B in zip(P1, P2):
            ctx.check(type(A) is type(B), 'fixed point | class changes')
            compare(ctx, f'fixed point {type(A).__name__}', A, B, nd, radunit,
                    coordsys)
            ctx.check(dict(A.meta) == dict(B.meta) and dict(A.visual) == dict(B.visual),
                      f'{type(A).__name__} | parse->serialise->parse changes '
                      'the metadata', f'{dict(A.meta)} {dict(A.visual)} -> '
                      f'{dict(B.meta)} {dict(B.visual)}')
        text3 = P2.serialize(format='crtf', **opts)
        from vf.ops import parsed_independent
        parsed_independent(ctx, P2, lambda: Regions.parse(
            text2, format='crtf'), 'parse')
        ctx.check(text3 == text2, 'fixed point | serialising again changes '
                  'the text')
        # parsed regions are ordinary regions: edited (entries deleted or
        # replaced), they serialise as what they NOW are
        E = list(Regions.parse(text2, format='crtf'))
        kinds = sp.get('edits') or [0]
        done = [lab for i, r in enumerate(E)
                for lab in [_edit_parsed(r, kinds[i % len(kinds)])] if lab]
        if done:
            ctx.label(*{'edit:' + d for d in done})
            textE = Regions(E).serialize(format='crtf', **opts)
            PE = Regions.parse(textE, format='crtf')
            ctx.check(len(PE) == len(E), 'edited | count changes')
            for A, B in zip(E, PE):
                nm = type(A).__name__
                ctx.check(type(A) is type(B), f'{nm} | edited: class changes')
                compare(ctx, f'edited {nm}', A, B, nd, radunit, coordsys)
                ctx.check(_norm_meta(A.meta) == _norm_meta(B.meta)
                          and dict(A.visual) == dict(B.visual),
                          f'{nm} | edited: a parsed region whose metadata was '
                          'edited does not serialise as what it now is',
                          f'{_norm_meta(A.meta)} {dict(A.visual)} -> '
                          f'{_norm_meta(B.meta)} {dict(B.visual)}')
        ctx.nontrivial(nt)


def _norm_meta(m):
    d = dict(m)
    d['include'] = bool(d.get('include', True))
    d.setdefault('type', 'reg')
    return d


def _edit_parsed(reg, kind):
    """Edit a parsed CRTF region in place; returns a label or None."""
    m, v = reg.meta, reg.visual
    is_text = type(reg).__name__.startswith('Text')
    if kind == 1 and 'label' in m and not is_text:
        del m['label']
        return 'del label'
    if kind == 2 and 'corr' in m:
        del m['corr']
        return 'del corr'
    if kind == 3 and 'range' in m:
        del m['range']
        return 'del range'
    if kind == 4 and 'include' in m:
        del m['include']
        return 'del include'
    if kind == 5:
        m['include'] = not bool(m.get('include', True))
        return 'flip include'
    if kind == 6 and not is_text:
        m['label'] = 'edited later'
        return 'set label'
    if kind == 7 and 'color' in v:
        del v['color']
        return 'del color'
    if kind == 8 and 'linewidth' in v:
        del v['linewidth']
        return 'del linewidth'
    if kind == 9:
        m['type'] = 'reg' if m.get('type') == 'ann' else 'ann'
        return 'toggle type'
    return None


def _q(x):
    import astropy.units as u
    return u.Quantity(x)


def _frame_of(rs):
    for k in ('center', 'start', 'vertices'):
        if k in rs:
            return rs[k]['frame']


def _which_changed(regs, before):
    from vf.fingerprint import fp
    for r, b in zip(regs, before):
        if fp(r) != b:
            return f'{type(r).__name__}: meta now {dict(r.meta)}'
    return ''


RELATIONS = [RoundTrip()]


# ------------------------------------------------------------------ read ---
# Abstract CRTF files -> text (render) and -> expected regions (interpret).
# The interpreter applies the CASA rules as stated in the property; it does
# not parse text and shares nothing with regions.io.crtf.

CRTF_FRAMES = {'J2000': 'fk5', 'B1950': 'fk4', 'ICRS': 'icrs',
               'GALACTIC': 'galactic', 'SUPERGAL': 'supergalactic',
               'ECLIPTIC': 'geocentrictrueecliptic'}
LEN_UNITS = {'deg': 1.0, 'arcmin': 1 / 60.0, 'arcsec': 1 / 3600.0,
             'rad': 180.0 / math.pi, '"': 1 / 3600.0, "'": 1 / 60.0}


def _coord_tv(c, is_lon):
    st_ = c['style']
    if st_ == 'deg':
        return c['t'] + 'deg', float(c['t'])
    if st_ == 'rad':
        return c['t'] + 'rad', math.degrees(float(c['t']))
    if st_ == 'pix':
        return c['t'] + 'pix', float(c['t'])
    sign = -1.0 if c.get('neg') else 1.0
    sg = '-' if c.get('neg') else ''
    mag = c['d'] + c['m'] / 60.0 + float(c['s']) / 3600.0
    if st_ == 'hms_colon':        # 18:20:30.12 -> hours
        return f"{c['d']}:{c['m']:02d}:{c['s']}", mag * 15.0
    if st_ == 'dms_dot':          # -10.11.54.69 -> degrees
        return f"{sg}{c['d']}.{c['m']:02d}.{c['s']}", sign * mag
    if st_ == 'hms':
        return f"{c['d']}h{c['m']:02d}m{c['s']}s", mag * 15.0
    if st_ == 'dms':
        return f"{sg}{c['d']}d{c['m']:02d}m{c['s']}s", sign * mag
    raise ValueError(st_)


def _len_tv(s, pixel):
    v = float(s['t'])
    u_ = s['u']
    if u_ == '':
        return s['t'], None                 # unit-less: must be rejected
    if pixel:
        return s['t'] + 'pix', v
    return s['t'] + u_, v * LEN_UNITS[u_]


def crtf_render(afile):
    out = '#CRTFv0\n'
    for s in afile:
        if s['k'] == 'comment':
            out += '# ' + s['text'] + '\n'
        elif s['k'] == 'blank':
            out += '\n'
        elif s['k'] == 'global':
            out += 'global ' + ', '.join(f'{k}={v}' for k, v in s['props']) + '\n'
        else:
            pixel = s['pixel']
            pts = [f"[{_coord_tv(x, True)[0]}, {_coord_tv(y, False)[0]}]"
                   for x, y in s['pts']]
            d = s['def']
            pre = s.get('sign', '') + ('ann ' if s.get('ann') else '')
            if d == 'circle':
                body = f"circle[{pts[0]}, {_len_tv(s['lens'][0], pixel)[0]}]"
            elif d in ('annulus', 'centerbox'):
                a, b = (_len_tv(x, pixel)[0] for x in s['lens'][:2])
                body = f'{d}[{pts[0]}, [{a}, {b}]]'
            elif d in ('ellipse', 'rotbox'):
                a, b = (_len_tv(x, pixel)[0] for x in s['lens'][:2])
                body = f"{d}[{pts[0]}, [{a}, {b}], {s['pa']}deg]"
            elif d in ('box', 'line'):
                body = f'{d}[{pts[0]}, {pts[1]}]'
            elif d == 'poly':
                body = 'poly[' + ', '.join(pts) + ']'
            elif d == 'symbol':
                body = f"symbol[{pts[0]}, {s['symbol']}]"
            elif d == 'text':
                body = f"text[{pts[0]}, '{s['text']}']"
            props = []
            for k, v in s.get('props', []):
                if k == 'label':
                    q = '"' if "'" in v else "'"
                    props.append(f'label={q}{v}{q}')
                else:
                    props.append(f'{k}={v}')
            out += pre + body + (', ' + ', '.join(props) if props else '') + '\n'
    return out


def crtf_interpret(afile):
    """-> list of expected dicts, or the string 'error' when the file must be
    rejected (a length without units)."""
    gl = {}
    out = []
    for s in afile:
        if s['k'] in ('comment', 'blank'):
            continue
        if s['k'] == 'global':
            gl.update({k: v for k, v in s['props']})
            continue
        meta = dict(gl)
        meta.update({k: v for k, v in s.get('props', [])})
        coord = meta.pop('coord', None)
        frame = 'image' if coord is None else CRTF_FRAMES[coord.upper()]
        pixel = s['pixel']
        pts = [(_coord_tv(x, True)[1], _coord_tv(y, False)[1])
               for x, y in s['pts']]
        lens = [_len_tv(x, pixel)[1] for x in s.get('lens', [])]
        if any(v is None for v in lens):
            return 'error'
        e = {'frame': frame, 'include': s.get('sign', '') != '-',
             'type': 'ann' if s.get('ann') else 'reg', 'meta': meta}
        d = s['def']
        if d == 'circle':
            e.update(cls='Circle', center=pts[0], sizes={'radius': lens[0]})
        elif d == 'annulus':
            e.update(cls='CircleAnnulus', center=pts[0],
                     sizes={'inner_radius': lens[0], 'outer_radius': lens[1]})
        elif d == 'ellipse':
            # [major, minor] semi-axes: height = 2 major, width = 2 minor
            e.update(cls='Ellipse', center=pts[0], angle=float(s['pa']),
                     sizes={'height': 2 * lens[0], 'width': 2 * lens[1]})
        elif d == 'rotbox':
            e.update(cls='Rectangle', center=pts[0], angle=float(s['pa']),
                     sizes={'width': lens[0], 'height': lens[1]})
        elif d == 'centerbox':
            e.update(cls='Rectangle', center=pts[0], angle=0.0,
                     sizes={'width': lens[0], 'height': lens[1]})
        elif d == 'box':
            (x1, y1), (x2, y2) = pts
            e.update(cls='Rectangle', center=((x1 + x2) / 2, (y1 + y2) / 2),
                     angle=0.0, sizes={'width': abs(x1 - x2),
                                       'height': abs(y1 - y2)})
        elif d == 'poly':
            e.update(cls='Polygon', pts=pts)
        elif d == 'line':
            e.update(cls='Line', center=pts[0], end=pts[1])
        elif d == 'symbol':
            e.update(cls='Point', center=pts[0], symbol=s['symbol'])
        elif d == 'text':
            e.update(cls='Text', center=pts[0], text=s['text'])
        out.append(e)
    return out


def _dec_text(lo, hi, nd):
    return st.integers(int(lo * 10 ** nd), int(hi * 10 ** nd)).map(
        lambda k: f'{k / 10 ** nd:.{nd}f}')


def _sexa(max_d, signed):
    return st.fixed_dictionaries({
        'd': st.integers(0, max_d), 'm': st.integers(0, 59),
        's': st.integers(0, 5999).map(lambda k: f'{k / 100:05.2f}'),
        'neg': st.booleans() if signed else st.just(False)})


@st.composite
def crtf_region(draw, global_coord):
    d = draw(st.sampled_from(['circle', 'annulus', 'ellipse', 'rotbox',
                              'centerbox', 'box', 'poly', 'line', 'symbol',
                              'text']))
    inline = draw(st.sampled_from([None, None, 'J2000', 'B1950', 'ICRS',
                                   'GALACTIC', 'SUPERGAL', 'ECLIPTIC',
                                   'j2000', 'icrs']))
    coord = inline if inline is not None else global_coord
    pixel = coord is None

    def pt(i=0):
        if pixel:
            return [{'style': 'pix', 't': draw(_dec_text(-500, 5000, 3))},
                    {'style': 'pix', 't': draw(_dec_text(-500, 5000, 3))}]
        lon = draw(st.one_of(
            _dec_text(0, 359.99, 5).map(lambda t: {'style': 'deg', 't': t}),
            _dec_text(0, 6.28, 6).map(lambda t: {'style': 'rad', 't': t}),
            _sexa(23, False).map(lambda c: dict(c, style='hms_colon')),
            _sexa(23, False).map(lambda c: dict(c, style='hms'))))
        lat = draw(st.one_of(
            _dec_text(-89, 89, 5).map(lambda t: {'style': 'deg', 't': t}),
            _dec_text(-1.55, 1.55, 6).map(lambda t: {'style': 'rad', 't': t}),
            _sexa(88, True).map(lambda c: dict(c, style='dms_dot')),
            _sexa(88, True).map(lambda c: dict(c, style='dms'))))
        if d == 'box':
            # corners are differenced: keep plain degrees
            lon = {'style': 'deg', 't': draw(_dec_text(10, 300, 4))}
            lat = {'style': 'deg', 't': draw(_dec_text(-60, 60, 4))}
        return [lon, lat]

    def lens(n):
        # the quote units are only generated for single lengths: inside a
        # pair they hit the known coordinate-regex defect (see
        # known_findings.json, C11-crtf-arcsec-pair)
        units = ['deg', 'arcmin', 'arcsec', 'rad']
        if n == 1:
            units += ['"', "'"]
        u_ = 'pix' if pixel else draw(st.sampled_from(units))
        hi = {'deg': 5, 'arcmin': 300, 'arcsec': 3600, 'rad': 0.08, '"': 3600,
              "'": 300, 'pix': 500}[u_]
        vals = sorted(draw(st.lists(st.integers(1, int(hi * 1000)), min_size=n,
                                    max_size=n, unique=True)))
        return [{'t': f'{v / 1000:.3f}', 'u': u_} for v in vals]

    s = {'k': 'region', 'def': d, 'pixel': pixel, 'pts': [pt()],
         'sign': draw(st.sampled_from(['', '', '+', '-'])),
         'ann': draw(st.sampled_from([False, False, True]))}
    if d == 'circle':
        s['lens'] = lens(1)
    elif d in ('annulus',):
        s['lens'] = lens(2)
    elif d in ('ellipse', 'rotbox', 'centerbox'):
        a = lens(2)
        s['lens'] = a[::-1] if d == 'ellipse' else draw(st.permutations(a))
        s['pa'] = draw(_dec_text(-360, 360, 2))
    elif d == 'line':
        s['pts'].append(pt(1))
    elif d == 'box':
        # the opposite corner: strictly different in both coordinates
        p0 = s['pts'][0]
        nd_ = 3 if pixel else 4
        dx = draw(st.integers(1, 5000)) / 10 ** nd_ * draw(st.sampled_from([1, -1]))
        dy = draw(st.integers(1, 5000)) / 10 ** nd_ * draw(st.sampled_from([1, -1]))
        c2 = [dict(p0[0], t=f"{float(p0[0]['t']) + dx:.{nd_}f}"),
              dict(p0[1], t=f"{float(p0[1]['t']) + dy:.{nd_}f}")]
        if not pixel:
            # the two corners need not be written in the same notation
            how = draw(st.sampled_from(['deg', 'deg', 'rad', 'sexa', 'mixed']))
            lon_v, lat_v = float(c2[0]['t']), float(c2[1]['t'])

            def sexa(v, hours):
                neg = v < 0
                a = abs(v) / (15.0 if hours else 1.0)
                k = int(round(a * 360000))          # hundredths of a second
                dd, rem = divmod(k, 360000)
                mm, ss = divmod(rem, 6000)
                return {'d': dd, 'm': mm, 's': f'{ss / 100:05.2f}', 'neg': neg}
            if how in ('rad', 'mixed'):
                c2[0] = {'style': 'rad', 't': f'{math.radians(lon_v):.8f}'}
            if how == 'rad':
                c2[1] = {'style': 'rad', 't': f'{math.radians(lat_v):.8f}'}
            if how == 'sexa':
                c2[0] = dict(sexa(lon_v, True), style='hms_colon')
            if how in ('sexa', 'mixed'):
                c2[1] = dict(sexa(lat_v, False), style='dms_dot')
        s['pts'].append(c2)
    elif d == 'poly':
        for _ in range(draw(st.integers(2, 5))):
            s['pts'].append(pt())
    elif d == 'symbol':
        s['symbol'] = draw(st.sampled_from(SYMBOLS))
    elif d == 'text':
        s['text'] = draw(st.sampled_from(['hello', 'my text', 'A-1', 'x y',
                                          "3'", '30"', 'a, b', ' lead ']))
    props = []
    if inline is not None:
        props.append(['coord', inline])
    if d != 'text' and draw(st.integers(0, 2)) == 0:
        # a label is a quoted string: what is between the quotes is its own
        props.append(['label', draw(st.sampled_from(
            ['lab', 'my label', 'a, b', ' lead', 'trail ', 'x [y]', 'k=v',
             "it's", '30"', 'coord=ICRS, color=red']))])
    for k, vals in (('color', ['red', 'blue', 'green']), ('linewidth', ['1', '3']),
                    ('linestyle', ['-', '--']), ('frame', ['TOPO', 'BARY']),
                    ('veltype', ['RADIO']), ('symsize', ['2']),
                    ('fontsize', ['12'])):
        if draw(st.integers(0, 3)) == 0:
            props.append([k, draw(st.sampled_from(vals))])
    s['props'] = draw(st.permutations(props)) if props else []
    s['props'] = [list(p) for p in s['props']]
    if draw(st.integers(0, 19)) == 0 and s.get('lens'):
        s['lens'][0] = dict(s['lens'][0], u='')       # length without a unit
    return s


@st.composite
def crtf_file(draw, n):
    out = []
    gcoord = None
    if draw(st.booleans()):
        gcoord = draw(st.sampled_from([None, 'J2000', 'GALACTIC', 'ICRS',
                                       'B1950']))
        gp = []
        if gcoord is not None:
            gp.append(['coord', gcoord])
        for k, vals in (('color', ['cyan', 'magenta']), ('linewidth', ['2']),
                        ('frame', ['LSRK']), ('fontsize', ['10'])):
            if draw(st.booleans()):
                gp.append([k, draw(st.sampled_from(vals))])
        if gp:
            out.append({'k': 'global', 'props': gp})
    for _ in range(draw(st.integers(1, n))):
        k = draw(st.sampled_from(['region', 'region', 'region', 'region',
                                  'region', 'comment', 'blank', 'global']))
        if k == 'global':
            # a later global line replaces the defaults of an earlier one for
            # the lines that follow (two files concatenated)
            gp = []
            c2 = draw(st.sampled_from([None, 'J2000', 'GALACTIC', 'ICRS',
                                       'B1950']))
            if c2 is not None:
                gp.append(['coord', c2])
                gcoord = c2
            for kk, vals in (('color', ['red', 'yellow']), ('linewidth', ['4']),
                             ('frame', ['TOPO']), ('symsize', ['3'])):
                if draw(st.booleans()):
                    gp.append([kk, draw(st.sampled_from(vals))])
            if gp:
                out.append({'k': 'global', 'props': gp})
        elif k == 'comment':
            out.append({'k': 'comment', 'text': 'a comment, coord=ICRS'})
        elif k == 'blank':
            out.append({'k': 'blank'})
        else:
            out.append(draw(crtf_region(gcoord)))
    return out


VISUAL_KEYS = ('color', 'linewidth', 'linestyle', 'symsize', 'fontsize')


class Read(Relation):
    name = 'C11.read'
    examples = {'quick': 300, 'thorough': 4000}
    shards = {'quick': 8, 'thorough': 16}
    # coverage-guided tier (vf/guided.py): (shards, libFuzzer runs per shard)
    guided = {'quick': (2, 1000), 'thorough': (16, 15000)}
    guided_modules = ['regions.io', 'regions.core.metadata']

    def strategy(self, tier):
        return crtf_file(6 if tier == 'quick' else 20)

    def check(self, afile, ctx):
        import astropy.units as u
        from regions import Regions
        from regions.io.crtf.core import CRTFRegionParserError
        text = crtf_render(afile)
        want = crtf_interpret(afile)
        try:
            regs = list(Regions.parse(text, format='crtf'))
        except CRTFRegionParserError as e:
            ctx.check(want == 'error', 'read | valid CRTF text rejected',
                      f'{e}\n{text}')
            ctx.nontrivial(True)
            return
        ctx.check(want != 'error', 'read | a length without units is accepted',
                  text)
        ctx.check(len(regs) == len(want), 'read | wrong number of regions',
                  f'{len(want)} expected, {len(regs)} read\n{text}')
        nt = False
        for e, r in zip(want, regs):
            kind = 'Pixel' if e['frame'] == 'image' else 'Sky'
            tag = f"{e['cls']} {kind.lower()}"
            ctx.label(tag)
            ctx.check(type(r).__name__ == e['cls'] + kind + 'Region',
                      f'{tag} | wrong class', f'{type(r).__name__}\n{text}')

            def pos(v):
                if kind == 'Pixel':
                    return (np.atleast_1d(np.asarray(v.x, float)),
                            np.atleast_1d(np.asarray(v.y, float)))
                return (np.atleast_1d(v.spherical.lon.deg),
                        np.atleast_1d(v.spherical.lat.deg))

            def same(got, pts, what):
                xs, ys = got
                ctx.check(len(xs) == len(pts), f'{tag} | {what}: wrong number '
                          'of points')
                for (ex, ey), x, y in zip(pts, xs, ys):
                    dx = abs(((x - ex) + 180.0) % 360.0 - 180.0) \
                        if kind == 'Sky' else abs(x - ex)
                    ctx.check(dx <= 1e-9 * max(1, abs(ex))
                              and abs(y - ey) <= 1e-9 * max(1, abs(ey)),
                              f'{tag} | {what} differs from the CASA reading',
                              f'expected {(ex, ey)} got {(x, y)}\n{text}')
            if e['cls'] == 'Polygon':
                same(pos(r.vertices), e['pts'], 'vertices')
                fr = r.vertices
            elif e['cls'] == 'Line':
                same(pos(r.start), [e['center']], 'start')
                same(pos(r.end), [e['end']], 'end')
                fr = r.start
            else:
                same(pos(r.center), [e['center']], 'centre')
                fr = r.center
            if kind == 'Sky':
                ctx.check(fr.frame.name == e['frame'],
                          f'{tag} | coord= does not select the frame',
                          f'{fr.frame.name} vs {e["frame"]}\n{text}')
            for nm, ev in e.get('sizes', {}).items():
                v = getattr(r, nm)
                v = float(v) if kind == 'Pixel' else v.to_value(u.deg)
                ctx.check(abs(v - ev) <= 1e-9 * max(1, abs(ev)),
                          f'{tag} | {nm} differs from the CASA reading',
                          f'expected {ev!r} got {v!r}\n{text}')
            if 'angle' in e and hasattr(r, 'angle'):
                ctx.check(abs(r.angle.to_value(u.deg) - e['angle']) <= 1e-9,
                          f'{tag} | angle differs', f"{r.angle!r} vs {e['angle']}")
            ctx.check(bool(r.meta.get('include')) == e['include'],
                      f'{tag} | leading - does not exclude', text)
            ctx.check(r.meta.get('type') == e['type'],
                      f'{tag} | ann prefix not honoured', text)
            if e['cls'] == 'Text':
                ctx.check(r.text == e['text'] and r.meta.get('label') == e['text'],
                          f'{tag} | text/label differs')
            elif 'label' in e['meta']:
                ctx.check(r.meta.get('label') == e['meta']['label'],
                          f'{tag} | label differs',
                          f"{r.meta.get('label')!r} vs {e['meta']['label']!r}")
            if e['cls'] == 'Point':
                ctx.check(r.visual.get('symbol') == e['symbol'],
                          f'{tag} | symbol differs')
            for k, v in e['meta'].items():
                if k in VISUAL_KEYS:
                    ctx.check(str(r.visual.get(k)) == str(v),
                              f'{tag} | inline/global precedence for {k}',
                              f'{r.visual.get(k)!r} vs {v!r}\n{text}')
                elif k in ('frame', 'veltype'):
                    ctx.check(r.meta.get(k) == v,
                              f'{tag} | inline/global precedence for {k}',
                              f'{r.meta.get(k)!r} vs {v!r}\n{text}')
            if not e['include'] or e['type'] == 'ann' or kind == 'Sky':
                nt = True
        ctx.nontrivial(nt and len(want) >= 1)


RELATIONS.append(Read())
