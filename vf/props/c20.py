"""C20 - pixel coordinates behave as broadcast (x, y) arrays under every operation."""
import math

import numpy as np
from hypothesis import strategies as st

from vf import spec as S
from vf.gen import regions as G
from vf.gen import wcs as W
from vf.runner import Relation

LEVEL = 'exploration'
RULE = ('C20.arrays: Hypothesis draws x/y shape pairs (scalars, 0-length, '
        '1-D, N-D, mixed ranks; broadcastable and not), int/float dtypes and '
        'index expressions built for the broadcast shape (ints, negatives, '
        'slices with steps, boolean and integer arrays, tuples, Ellipsis); '
        'numpy itself is the reference for construction, indexing, len, '
        'iteration, +/-, separation and copies. C20.rotate: centres/angles of '
        'any magnitude and unit; isometry, additivity, fixed centre and the '
        'documented counter-clockwise sense. C20.wcs: the WCS family '
        '(TAN/SIN/CAR, any rotation, both parities, 4 frames) x origin {0,1} x '
        'mode {all, wcs}; round trip to 1e-6 px and origin-1 = origin-0 '
        'shifted by one pixel. Non-trivial: ranks differ, or 0-length, or '
        'fancy index; rotated WCS and origin 1; rotation centre != point.')
ASSUMPTIONS = [
    'positions for the sky round trip lie within 45 deg of the projection '
    'centre (beyond it the projections are not invertible)',
]

SHAPES = [(), (), (0,), (1,), (3,), (5,), (2, 3), (1, 3), (3, 1), (2, 1, 3),
          (2, 2, 2), (0, 2), (4,), (1,), (1, 1)]


def _arr(shape, vals, dtype):
    n = int(np.prod(shape)) if shape else 1
    v = [vals[i % len(vals)] for i in range(n)]
    if dtype == 'int':
        a = np.array([int(round(t)) for t in v], dtype=np.int64)
    elif dtype == 'float32':
        a = np.array(v, dtype=np.float32)
    elif dtype in ('int32', 'int16', 'uint8', 'uint16', 'uint32'):
        info = np.iinfo(dtype)
        a = np.array([min(info.max, max(info.min, int(round(abs(t) if info.min
                      == 0 else t)))) for t in v], dtype=dtype)
    else:
        a = np.array(v, dtype=float)
    if shape == ():
        return a.reshape(()).item()
    return a.reshape(shape)


def _index(kind, shape, ints, bools):
    """Build an index expression valid (or deliberately invalid) for shape."""
    if not shape:
        return 0
    n0 = shape[0]
    i = ints[0] % max(n0, 1) if n0 else 0
    if kind == 'int':
        return i
    if kind == 'neg':
        return -1 - i if n0 else -1
    if kind == 'slice':
        a, b = sorted((ints[0] % (n0 + 1), ints[1] % (n0 + 1)))
        return slice(a, b)
    if kind == 'slice_step':
        return slice(None, None, (ints[1] % 3) + 1 if ints[2] % 2 else
                     -((ints[1] % 3) + 1))
    if kind == 'bool':
        return np.array([bools[k % len(bools)] for k in range(n0)], dtype=bool)
    if kind == 'intarr':
        if n0 == 0:
            return np.array([], dtype=int)
        return np.array([t % n0 for t in ints], dtype=int)
    if kind == 'tuple' and len(shape) >= 2:
        return (i, slice(None))
    if kind == 'ellipsis':
        return (Ellipsis, 0) if len(shape) >= 1 and shape[-1] > 0 else Ellipsis
    if kind == 'oob':
        return n0 + 3
    return slice(None)


class Arrays(Relation):
    name = 'C20.arrays'
    examples = {'quick': 1500, 'thorough': 15000}
    shards = {'quick': 8, 'thorough': 16}

    def strategy(self, tier):
        vals = st.lists(st.one_of(st.integers(-1000, 1000).map(float),
                                  st.floats(-1e6, 1e6)),
                        min_size=2, max_size=12)
        return st.fixed_dictionaries({
            'sx': st.sampled_from(SHAPES), 'sy': st.sampled_from(SHAPES),
            'dx': st.sampled_from(['float', 'int', 'float', 'float32']),
            'dy': st.sampled_from(['float', 'int', 'float']),
            # the second operand of + - separation: any numeric array type
            'd2': st.sampled_from(['float', 'float', 'int', 'int32', 'int16',
                                   'uint8', 'uint16', 'uint32', 'float32']),
            'index': st.sampled_from(['int', 'neg', 'slice', 'slice_step',
                                      'bool', 'intarr', 'tuple', 'ellipsis',
                                      'oob']),
            'ints': st.lists(st.integers(0, 50), min_size=3, max_size=6),
            'bools': st.lists(st.booleans(), min_size=2, max_size=7),
            'xv': vals, 'yv': vals, 'x2': vals, 'y2': vals,
        })

    def check(self, sp, ctx):
        from regions import PixCoord
        x = _arr(tuple(sp['sx']), sp['xv'], sp['dx'])
        y = _arr(tuple(sp['sy']), sp['yv'], sp['dy'])
        ctx.label(f"rank:{len(sp['sx'])}x{len(sp['sy'])}", 'idx:' + sp['index'])
        try:
            bx, by = np.broadcast_arrays(x, y)
            ok = True
        except ValueError:
            ok = False
        if not ok:
            try:
                PixCoord(x, y)
            except ValueError:
                pass
            else:
                ctx.fail('construct | non-broadcastable shapes accepted',
                         f"{sp['sx']} vs {sp['sy']}")
            ctx.nontrivial(True)
            return
        pc = PixCoord(x, y)
        shape = bx.shape
        if shape == ():
            ctx.check(pc.isscalar and np.isscalar(pc.x) and np.isscalar(pc.y),
                      'construct | scalar pair does not stay scalar',
                      f'{type(pc.x).__name__}')
            ctx.check(pc.x == x and pc.y == y, 'construct | scalar values differ')
            for what, f in (('len', lambda: len(pc)), ('index', lambda: pc[0])):
                try:
                    f()
                except (TypeError, IndexError):
                    pass
                else:
                    ctx.fail(f'scalar | {what} of a scalar coordinate succeeds')
        else:
            ctx.check(not pc.isscalar, 'construct | array reported as scalar')
            ctx.check(np.shape(pc.x) == shape and np.shape(pc.y) == shape,
                      'construct | values are not broadcast to a common shape',
                      f'{np.shape(pc.x)} {np.shape(pc.y)} vs {shape}')
            ctx.check(np.array_equal(pc.x, bx) and np.array_equal(pc.y, by),
                      'construct | broadcast values differ')
            ctx.check(len(pc) == shape[0], 'len | differs from len(x)')
            # iteration
            if shape[0] <= 6:
                items = list(pc)
                ctx.check(len(items) == shape[0], 'iter | wrong count')
                # iterations over the same coordinate do not share a cursor
                pairs = list(zip(pc, pc))
                nested = sum(1 for _ in pc for _ in pc)
                it1 = iter(pc)
                first = next(it1, None)
                list(pc)
                rest = list(it1)
                ctx.check(len(pairs) == shape[0]
                          and all(np.array_equal(a.x, b.x) for a, b in pairs)
                          and nested == shape[0] ** 2
                          and (first is None or len(rest) == shape[0] - 1),
                          'iter | two iterations over one coordinate '
                          'interfere with each other',
                          f'zip: {len(pairs)} pairs, nested: {nested}, '
                          f'after a second iteration: {len(rest)} left')
                for k, it in enumerate(items):
                    ctx.check(isinstance(it, PixCoord)
                              and np.array_equal(it.x, bx[k])
                              and np.array_equal(it.y, by[k]),
                              'iter | element differs from (x[k], y[k])')
                    # an element is a coordinate like any other: the same
                    # kind of values as indexing gives, usable in arithmetic
                    ref_it = pc[k]
                    ctx.check(type(it.x) is type(ref_it.x)
                              and np.shape(it.x) == np.shape(bx[k])
                              and it.isscalar == ref_it.isscalar,
                              'iter | element is not the kind of coordinate '
                              'that indexing gives',
                              f'{type(it.x).__name__} {np.shape(it.x)} vs '
                              f'{type(ref_it.x).__name__} {np.shape(bx[k])}')
                    tw = it + it
                    ctx.check(np.shape(tw.x) == np.shape(bx[k])
                              and np.array_equal(tw.x, np.add(bx[k], bx[k]))
                              and np.array_equal(tw.y, np.add(by[k], by[k])),
                              'iter | element + element is not the '
                              'component-wise sum')
            # indexing
            key = _index(sp['index'], shape, sp['ints'], sp['bools'])
            try:
                wx, wy = bx[key], by[key]
                werr = None
            except IndexError as e:
                werr = e
            try:
                got = pc[key]
                gerr = None
            except IndexError as e:
                gerr = e
            ctx.check((werr is None) == (gerr is None),
                      'index | raises differently from numpy',
                      f'key {key!r} shape {shape}: numpy {werr!r} vs {gerr!r}')
            if werr is None:
                ctx.check(isinstance(got, PixCoord)
                          and np.shape(got.x) == np.shape(wx)
                          and np.array_equal(got.x, wx)
                          and np.array_equal(got.y, wy),
                          'index | differs from indexing x and y',
                          f'key {key!r} shape {shape}')
                if np.shape(wx) == ():
                    ctx.check(got.isscalar, 'index | scalar element not scalar')
        # ---- arithmetic with a second coordinate of the same broadcast shape
        d2 = sp.get('d2', 'float')
        ctx.label('operand2:' + d2)
        x2 = _arr(shape, sp['x2'], d2)
        y2 = _arr(shape, sp['y2'], d2)
        a = PixCoord(bx if shape else x, by if shape else y)
        b = PixCoord(x2, y2)
        s = a + b
        d = a - b
        ctx.check(np.array_equal(s.x, np.add(a.x, b.x))
                  and np.array_equal(s.y, np.add(a.y, b.y)),
                  'add | not component-wise')
        ctx.check(np.array_equal(d.x, np.subtract(a.x, b.x))
                  and np.array_equal(d.y, np.subtract(a.y, b.y)),
                  'sub | not component-wise')
        back = (a + b) - b
        tol = 4 * 2.0 ** -52 * (np.abs(np.asarray(a.x, float))
                                + np.abs(np.asarray(b.x, float)))
        toly = 4 * 2.0 ** -52 * (np.abs(np.asarray(a.y, float))
                                 + np.abs(np.asarray(b.y, float)))
        if sp['dx'] != 'float32' and d2 != 'float32':
            ctx.check(np.all(np.abs(np.asarray(back.x, float) - a.x) <= tol)
                      and np.all(np.abs(np.asarray(back.y, float) - a.y) <= toly),
                      'add/sub | not inverse to each other')
        sep = a.separation(b)
        ctx.check(np.shape(sep) == shape and np.array_equal(
            np.asarray(sep), np.hypot(
                np.subtract(np.asarray(b.x, float), np.asarray(a.x, float)),
                np.subtract(np.asarray(b.y, float), np.asarray(a.y, float)))),
            'separation | not the Euclidean distance')
        for bad in (3, (1, 2), None):
            try:
                a + bad
            except TypeError:
                pass
            else:
                ctx.fail('add | non-PixCoord operand accepted', repr(bad))
        # ---- copies are independent
        c = a.copy()
        ctx.check(np.array_equal(c.x, a.x) and np.array_equal(c.y, a.y),
                  'copy | differs')
        if shape and bx.size:
            ctx.check(not np.shares_memory(c.x, a.x)
                      and not np.shares_memory(c.y, a.y),
                      'copy | shares memory with the original')
            keepx = np.array(a.x, copy=True)
            c.x[...] = 12345
            ctx.check(np.array_equal(a.x, keepx),
                      'copy | mutating the copy changes the original')
            # every copy is a new value: a second copy of the same object
            # is not the first one, and a copy taken after an in-place edit
            # of the original holds the CURRENT values
            import copy as _copy
            for how, mk in (('copy()', lambda o: o.copy()),
                            ('copy.copy', _copy.copy),
                            ('copy.deepcopy', _copy.deepcopy)):
                c1 = mk(a)
                c2 = mk(a)
                if how != 'copy.copy':
                    ctx.check(not np.shares_memory(c1.x, c2.x)
                              and not np.shares_memory(c1.y, c2.y)
                              and not np.shares_memory(c2.x, a.x),
                              f'copy | two {how} copies of one object share '
                              'memory')
                ctx.check(np.array_equal(c2.x, keepx)
                          and np.array_equal(c1.y, a.y),
                          f'copy | a second {how} copy differs from the '
                          'original')
            a.y[...] = a.y + 7
            ky = np.array(a.y, copy=True)
            c3 = a.copy()
            ctx.check(np.array_equal(c3.y, ky) and np.array_equal(c3.x, keepx),
                      'copy | a copy taken after an in-place edit of the '
                      'original holds stale values')
            c3.y[...] = -1
            ctx.check(np.array_equal(a.y, ky),
                      'copy | mutating a later copy changes the original')
        ctx.nontrivial(len(sp['sx']) != len(sp['sy']) or 0 in shape
                       or sp['index'] in ('bool', 'intarr', 'tuple',
                                          'ellipsis', 'slice_step'))


class Rotate(Relation):
    name = 'C20.rotate'
    examples = {'quick': 800, 'thorough': 8000}
    shards = {'quick': 4, 'thorough': 16}

    def strategy(self, tier):
        c = G.coord1('any')
        return st.fixed_dictionaries({
            'alpha': G.angles(False), 'beta': G.angles(False),
            'center': st.tuples(c, c).map(list),
            'pts': st.lists(st.tuples(c, c), min_size=1, max_size=6),
            'scalar': st.booleans(),
            # N-D coordinate arrays: (2, k), (k, 2) and (k, 1, 2)-shaped
            'nd': st.sampled_from([None, None, 'rows', 'cols', '3d']),
            # the type the coordinates are held in (whole-number positions
            # in integer arrays / Python ints), the centre stays fractional
            # (float32 is not drawn: the rotation of float32 coordinates is
            # carried out in float32 - 1e-7 relative - which the isometry
            # tolerance below cannot and should not accommodate)
            'ptype': st.sampled_from(['float', 'float', 'int64', 'int32',
                                      'int16', 'uint16', 'uint8']),
            # a whole-number centre given as Python ints (a pixel index)
            'cint': st.sampled_from([False, False, True]),
        })

    def check(self, sp, ctx):
        from regions import PixCoord
        cx, cy = sp['center']
        pts = sp['pts']
        pt = sp.get('ptype', 'float')
        if pt != 'float':
            lim = {'int16': 3e4, 'int32': 2e9, 'int64': 9e15, 'uint16': 65535.0,
                   'uint8': 255.0, 'float32': 1e30}[pt]
            lo = 0.0 if pt.startswith('uint') else -lim
            pts = [[max(lo, min(lim, float(round(t[0])))),
                    max(lo, min(lim, float(round(t[1]))))] for t in pts]
            ctx.label('rotate:' + pt)
        if sp.get('cint'):
            cx = int(max(-9e15, min(9e15, round(cx))))
            cy = int(max(-9e15, min(9e15, round(cy))))
            ctx.label('rotate:integer centre')
        if sp['scalar']:
            p = PixCoord(int(pts[0][0]), int(pts[0][1])) if pt.startswith(
                ('int', 'uint')) else PixCoord(pts[0][0], pts[0][1])
        else:
            xs = np.array([t[0] for t in pts])
            ys = np.array([t[1] for t in pts])
            if pt != 'float':
                xs, ys = xs.astype(pt), ys.astype(pt)
            nd = sp.get('nd')
            if nd and len(xs) >= 2:
                k = len(xs) // 2
                shape = {'rows': (2, k), 'cols': (k, 2), '3d': (k, 1, 2)}[nd]
                xs, ys = xs[:2 * k].reshape(shape), ys[:2 * k].reshape(shape)
                ctx.label('rotate:N-D')
                # memory layout: C order, Fortran order, or x and y differently
                lay = ('C', 'F', 'xF', 'T')[int(abs(cx) * 7 + len(pts)) % 4]
                if lay == 'F':
                    xs, ys = np.asfortranarray(xs), np.asfortranarray(ys)
                elif lay == 'xF':
                    xs = np.asfortranarray(xs)
                elif lay == 'T':
                    xs, ys = xs.T.copy().T, ys.T.copy().T
                ctx.label('layout:' + lay)
            p = PixCoord(xs, ys)
        c = PixCoord(cx, cy)
        al, be = S.angle(sp['alpha']), S.angle(sp['beta'])
        ar, br = S.angle_rad_raw(sp['alpha']), S.angle_rad_raw(sp['beta'])
        r = p.rotate(c, al)
        ctx.check(isinstance(r, PixCoord) and np.shape(r.x) == np.shape(p.x),
                  'rotate | result shape differs')
        ctx.check(r.isscalar == p.isscalar, 'rotate | scalar-ness lost')
        px, py = np.asarray(p.x, float), np.asarray(p.y, float)
        d0 = np.hypot(px - cx, py - cy)
        d1 = np.hypot(np.asarray(r.x) - cx, np.asarray(r.y) - cy)
        scale = np.abs(px) + np.abs(py) + abs(cx) + abs(cy) + 1.0
        tol = 1e-12 * d0 + 16 * 2.0 ** -52 * scale
        ctx.check(np.all(np.abs(d1 - d0) <= tol),
                  'rotate | not an isometry about the centre',
                  lambda: f'{d0.tolist()} -> {d1.tolist()}')
        # reference formula (documented: positive = counter-clockwise)
        th = S.angle_rad_reduced(sp['alpha'])
        wx = cx + math.cos(th) * (px - cx) - math.sin(th) * (py - cy)
        wy = cy + math.sin(th) * (px - cx) + math.cos(th) * (py - cy)
        tolr = tol + 8 * 2.0 ** -52 * ar * d0
        ctx.check(np.all(np.abs(np.asarray(r.x) - wx) <= tolr)
                  and np.all(np.abs(np.asarray(r.y) - wy) <= tolr),
                  'rotate | not the counter-clockwise rotation by the angle',
                  lambda: f'got {(np.asarray(r.x).tolist(), np.asarray(r.y).tolist())} want {(wx.tolist(), wy.tolist())}')
        # additivity
        r2 = r.rotate(c, be)
        r12 = p.rotate(c, al + be)
        tol2 = 2 * tol + 8 * 2.0 ** -52 * (ar + br) * d0
        ctx.check(np.all(np.abs(np.asarray(r2.x) - np.asarray(r12.x)) <= tol2)
                  and np.all(np.abs(np.asarray(r2.y) - np.asarray(r12.y)) <= tol2),
                  'rotate | does not compose additively in the angle')
        # centre is fixed
        rc = c.rotate(c, al)
        ctx.check(rc.x == cx and rc.y == cy, 'rotate | centre not fixed',
                  f'{(rc.x, rc.y)} vs {(cx, cy)}')
        # original untouched
        ctx.check(np.array_equal(np.asarray(p.x, float), px)
                  and np.array_equal(np.asarray(p.y, float), py),
                  'rotate | original modified')
        ctx.label(G.angle_family({'angle': sp['alpha']}))
        ctx.nontrivial(bool(np.any(d0 > 0)) and abs(math.remainder(
            th, math.pi / 2)) > 1e-9)


class Wcs(Relation):
    name = 'C20.wcs'
    examples = {'quick': 250, 'thorough': 2500}
    shards = {'quick': 8, 'thorough': 16}

    def strategy(self, tier):
        return st.fixed_dictionaries({
            'origin': st.sampled_from([0, 1]),
            'mode': st.sampled_from(['all', 'wcs']),
            'layout': st.sampled_from(['scalar', '1d', '2d']),
            'wcs': st.one_of(W.wcs_specs(), W.wcs_specs(),
                             st.just({'example': True}),
                             st.tuples(W.wcs_specs(projs=('TAN',)),
                                       st.sampled_from([1.0, -1.0, 0.5])).map(
                                 lambda t: dict(t[0], sip=t[1]))),
            'pts': st.lists(st.tuples(st.floats(-300, 300), st.floats(-300, 300)),
                            min_size=4, max_size=8),
            # pixel indices as users hold them: unsigned arrays, with the
            # first pixel (index 0) among them where the image allows it
            'ptype': st.sampled_from(['float', 'float', 'float', 'uint8',
                                      'uint16']),
        })

    def check(self, sp, ctx):
        from regions import PixCoord
        w = sp['wcs']
        if w.get('example'):
            cr = [180.0, 90.0]      # Galactic Aitoff, 1 deg/pixel, 360x180
            lim = 40.0
        else:
            cr = w['crpix']
            lim = min(300.0, 40.0 / w['scale'])
            if w.get('sip'):
                lim = min(lim, 120.0)
        xs = np.array([cr[0] - 1 + max(-lim, min(lim, t[0])) for t in sp['pts']])
        ys = np.array([cr[1] - 1 + max(-lim, min(lim, t[1])) for t in sp['pts']])
        pt = sp.get('ptype', 'float')
        if pt != 'float' and sp['layout'] != 'scalar':
            top = 255.0 if pt == 'uint8' else 65535.0
            xs, ys = np.clip(np.round(xs), 0, top), np.clip(np.round(ys), 0, top)
            if cr[0] - 1 - lim <= 0:
                xs[0] = 0
            if cr[1] - 1 - lim <= 0:
                ys[-1] = 0
            xs, ys = xs.astype(pt), ys.astype(pt)
            ctx.label('wcs:' + pt, 'wcs:index 0' if (xs.min() == 0
                                                    or ys.min() == 0)
                      else 'wcs:no index 0')
        if sp['layout'] == 'scalar':
            p = PixCoord(float(xs[0]), float(ys[0]))
        elif sp['layout'] == '1d':
            p = PixCoord(xs, ys)
        else:
            p = PixCoord(xs[:4].reshape(2, 2), ys[:4].reshape(2, 2))
        o, m = sp['origin'], sp['mode']
        # (a WCS object with a past converts these very coordinates in its
        # earlier state before it is edited in place)
        wcs = S.build_wcs(w, warm=lambda x: PixCoord.from_sky(
            p.to_sky(x, origin=o, mode=m), x, origin=o, mode=m))
        if w.get('past'):
            ctx.label('wcs:edited-in-place')
        sky = p.to_sky(wcs, origin=o, mode=m)
        back = PixCoord.from_sky(sky, wcs, origin=o, mode=m)
        ctx.label('origin:%d' % o, 'mode:' + m, 'layout:' + sp['layout'],
                  'example' if w.get('example') else W.rot_family(w),
                  'sip' if w.get('sip') else 'nosip')
        ctx.check(np.shape(back.x) == np.shape(p.x),
                  'wcs | round trip changes the shape',
                  f'{np.shape(back.x)} vs {np.shape(p.x)}')
        dx = np.abs(np.asarray(back.x) - np.asarray(p.x, float))
        dy = np.abs(np.asarray(back.y) - np.asarray(p.y, float))
        # with distortions mode='all' inverts the SIP polynomial iteratively
        # (astropy's own tolerance 1e-4 px)
        rt_tol = 2e-3 if (w.get('sip') and m == 'all') else 1e-6
        ctx.check(np.all(dx <= rt_tol) and np.all(dy <= rt_tol),
                  f'wcs origin={o} mode={m} | to_sky/from_sky is not a round trip',
                  lambda: f'max error {max(dx.max(), dy.max())!r} px')
        if sp['layout'] == 'scalar':
            ctx.check(back.isscalar, 'wcs | scalar round trip gives an array')
        # origin convention: origin-1 coordinates are origin-0 plus one
        sky0 = PixCoord(np.asarray(p.x, float) - o,
                        np.asarray(p.y, float) - o).to_sky(
            wcs, origin=0, mode=m)
        sep = sky.separation(sky0).arcsec
        scale_as = 3600.0 * (1.0 if w.get('example') else w['scale'])
        if w.get('sip'):
            # the two modes really differ for a distorted WCS
            other = p.to_sky(wcs, origin=o, mode='wcs' if m == 'all' else 'all')
            far = np.hypot(np.asarray(p.x) - cr[0], np.asarray(p.y) - cr[1]) > 30
            if np.any(far):
                ctx.check(np.any(np.atleast_1d(sky.separation(other).arcsec)[
                    np.atleast_1d(far)] > 1e-3 * scale_as if not w.get(
                        'example') else True),
                    'wcs | mode all and wcs give the same sky position for a '
                    'distorted WCS')
        ctx.check(np.all(sep <= 1e-6 * scale_as),
                  'wcs | origin=1 is not origin=0 shifted by one pixel',
                  lambda: f'max sep {np.max(sep)!r} arcsec')
        # default arguments are origin 0 / mode all
        if o == 0 and m == 'all':
            d = p.to_sky(wcs)
            ctx.check(np.array_equal(d.data.lon.deg, sky.data.lon.deg)
                      and np.array_equal(d.data.lat.deg, sky.data.lat.deg),
                      'wcs | defaults are not origin=0, mode=all')
        ctx.nontrivial(o == 1 and not w.get('example')
                       and W.rot_family(w) == 'wcsrot:generic'
                       or bool(w.get('example')))


RELATIONS = [Arrays(), Rotate(), Wcs()]
