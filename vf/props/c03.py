"""C03 - exact masks give the true pixel/region overlap area; subpixel masks
converge to it."""
import itertools
import math

import numpy as np
from hypothesis import strategies as st

from vf import spec as S
from vf.gen import regions as G
from vf.ref import area_mp as A
from vf.ref import geometry as ref
from vf.runner import Relation

LEVEL = 'exploration'
RULE = ('C03.exact_generic: Hypothesis draws circles/ellipses (semi-axes '
        'log-uniform 1e-3..1e3 px, ratio to 1:100, any angle, centre offsets '
        '(k+phi)/997 so that geometry is generic); whole masks for small '
        'shapes (range, sum = analytic area, sampled pixels vs the mpmath '
        'Green-theorem area to 1e-8) and direct 3x3 kernel windows on the '
        'boundary for large ones; cases with a pixel corner within 1e-7 of '
        'the ellipse / a tangent edge are skipped and counted. '
        'C03.lattice: the aligned lattice (centres k/4, semi-axes in '
        '{1/4..5}, angles multiples of 30/45 deg) is enumerated completely '
        'and every pixel of every mask is compared with the mpmath area. '
        'C03.convergence: circle/ellipse/rectangle/simple polygon, subpixels '
        'n in {1,2,4,8,16,32}: |sub_n - truth| <= sum_i 4 ceil(l_i n)/n^2 per '
        'pixel (l_i = boundary pieces inside the pixel). Non-trivial: a pixel '
        'value strictly inside (1e-6, 1-1e-6) and (axis ratio != 1 or offset '
        '!= 0).')
ASSUMPTIONS = [
    'aligned (non-generic) geometry is covered by the enumerated lattice, '
    'not by the random relation',
    'the elliptical exact kernel is known to be wrong on a listed set of '
    'lattice inputs (known_c03_lattice.json); those keys are excluded',
    'convergence polygons are simple (convex or star-shaped): the truth is '
    'the clipped-polygon area',
    'fully covered / uncovered pixels are required to be 1 / 0 within 1e-12',
]
EXHAUSTIVE_NOTE = 'C03.lattice enumerates its aligned lattice completely'
PHI = 0.6180339887498949


def _theta_mp(a):
    from vf.ref.extent import _UNIT
    import mpmath as mp
    if a is None:
        return mp.mpf(0)
    return _UNIT[a[1]](mp.mpf(float(a[0])))


def _build(sp):
    if sp['kind'] == 'circle':
        rs = {'cls': 'CirclePixelRegion', 'center': sp['center'],
              'radius': sp['a']}
    else:
        rs = {'cls': 'EllipsePixelRegion', 'center': sp['center'],
              'width': 2 * sp['a'], 'height': 2 * sp['b'],
              'angle': sp.get('angle')}
    # object history (vf.spec.build): constructed directly, or constructed
    # elsewhere / USED / edited by assignment or in place
    rs['build'] = sp.get('build', 'direct')
    return rs, S.build(rs)


def _ref_pixel(sp, ix, iy):
    a = sp['a']
    b = sp['a'] if sp['kind'] == 'circle' else sp['b']
    th = _theta_mp(sp.get('angle')) if sp['kind'] != 'circle' else 0
    area, degen = A.ellipse_pixel_area(sp['center'][0], sp['center'][1], a, b,
                                       th, ix, iy)
    return float(area), float(degen)


def _boundary_pixels(sp, ts):
    cx, cy = sp['center']
    a = sp['a']
    b = a if sp['kind'] == 'circle' else sp['b']
    th = ref.angle_rad_reduced(sp['angle']) if sp.get('angle') else 0.0
    c, s = math.cos(th), math.sin(th)
    out = []
    for t in ts:
        u, v = a * math.cos(2 * math.pi * t), b * math.sin(2 * math.pi * t)
        x, y = cx + c * u - s * v, cy + s * u + c * v
        p = (int(math.floor(x + 0.5)), int(math.floor(y + 0.5)))
        if p not in out:
            out.append(p)
    return out


def _kernel_window(sp, ix, iy):
    """3x3 exact values around pixel (ix, iy) by a direct kernel call."""
    from regions._geometry import (circular_overlap_grid,
                                   elliptical_overlap_grid)
    cx, cy = sp['center']
    xmin, xmax = (ix - 1) - 0.5 - cx, (ix + 2) - 0.5 - cx
    ymin, ymax = (iy - 1) - 0.5 - cy, (iy + 2) - 0.5 - cy
    if sp['kind'] == 'circle':
        return circular_overlap_grid(xmin, xmax, ymin, ymax, 3, 3, sp['a'],
                                     1, 1)
    th = S.angle(sp['angle']).to_value('rad') if sp.get('angle') else 0.0
    return elliptical_overlap_grid(xmin, xmax, ymin, ymax, 3, 3, sp['a'],
                                   sp['b'], th, 1, 1)


class ExactGeneric(Relation):
    name = 'C03.exact_generic'
    examples = {'quick': 500, 'thorough': 5000}
    shards = {'quick': 8, 'thorough': 16}
    whole = {'quick': 25.0, 'thorough': 80.0}

    def strategy(self, tier):
        def mk(t):
            kind, la, lr, ang, kx, ky, bx, by, ts = t
            a = 10.0 ** la
            d = {'kind': kind, 'a': a,
                 'center': [bx + (kx + PHI) / 997.0, by + (ky + PHI / 2) / 997.0],
                 'ts': ts}
            if kind == 'ellipse':
                d['b'] = min(max(a * 10.0 ** lr, 1e-3), 1e3)
                d['angle'] = ang
            d['build'] = ('direct', 'direct', 'direct', 'assign', 'reuse',
                          'inplace')[int(ts[0] * 6) % 6] if a < 100 else 'direct'
            return d
        return st.tuples(
            st.sampled_from(['ellipse', 'ellipse', 'circle']),
            st.one_of(st.floats(-3, 3), st.floats(-1, 1.5)),
            st.one_of(st.floats(-2, 2), st.floats(-0.5, 0.5)),
            G.angles(allow_none=False),
            st.integers(0, 996), st.integers(0, 996),
            st.integers(-40, 40), st.integers(-40, 40),
            st.lists(st.floats(0, 1, exclude_max=True), min_size=6,
                     max_size=12)).map(mk)

    def check(self, sp, ctx):
        kind = sp['kind']
        rs, reg = _build(sp)
        a = sp['a']
        b = a if kind == 'circle' else sp['b']
        ctx.label(kind, G.angle_family(rs), 'size:1e%d' % round(math.log10(a)))
        pixels = _boundary_pixels(sp, sp['ts'])
        nt = False
        big = max(a, b) > self.whole[ctx.tier if ctx.tier in self.whole
                                      else 'quick']
        if big and 4.0 * a * b <= 4e6 and int(sp['ts'][1] * 6) == 0:
            # one large region in six also gets its WHOLE mask made (up to
            # 4e6 pixels): what to_mask does for big grids is part of it
            big = False
            ctx.label('whole-mask-large')
        if not big:
            # a returned mask is the caller's to edit (in-place thresholding,
            # normalising): the next mask must not see the edit
            pre = reg.to_mask('exact')
            keep = np.array(pre.data, copy=True)
            if pre.data.size and pre.data.flags.writeable:
                pre.data[...] = -7.25
            mask = reg.to_mask('exact')
            d = np.asarray(mask.data)
            ctx.check(np.array_equal(d, keep),
                      f'{kind} | editing a returned exact mask changes the '
                      'mask returned by the next call')
            bb = mask.bbox
            # 'exact' is 'exact' whatever subpixels= says
            for nsub in ((1, 3) if d.size < 2500 else (1,)):
                alt = np.asarray(reg.to_mask('exact', nsub).data)
                ctx.check(np.array_equal(alt, d),
                          f'{kind} | a subpixels argument changes the exact '
                          'mask', f'subpixels={nsub}: '
                          f'{int((alt != d).sum())} pixels differ')
            ctx.check(np.all(np.isfinite(d)), f'{kind} | non-finite exact value')
            ctx.check(d.min() >= 0 and d.max() <= 1 + 1e-12,
                      f'{kind} | exact value outside [0, 1]',
                      f'min {d.min()!r} max {d.max()!r}')
            area = math.pi * a * b
            ctx.check(abs(d.sum() - area) <= 1e-8 * max(1.0, area),
                      f'{kind} | exact mask does not sum to the analytic area',
                      f'sum {d.sum()!r} area {area!r}')

            def value(ix, iy):
                j, i = iy - bb.iymin, ix - bb.ixmin
                if 0 <= j < d.shape[0] and 0 <= i < d.shape[1]:
                    return float(d[j, i])
                return 0.0
            # interior / exterior pixels: the centre pixel region
            extra = [(int(round(sp['center'][0])), int(round(sp['center'][1]))),
                     (bb.ixmin, bb.iymin), (bb.ixmax - 1, bb.iymax - 1)]
        else:
            cache = {}

            def value(ix, iy):
                key = (ix, iy)
                if key not in cache:
                    w = _kernel_window(sp, ix, iy)
                    for dj in range(3):
                        for di in range(3):
                            cache.setdefault((ix - 1 + di, iy - 1 + dj),
                                             float(w[dj, di]))
                return cache[key]
            extra = []
        n_checked = 0
        # the library converts the angle to radians in float64: a relative
        # error eps on a huge angle moves the far end of the ellipse by
        # eps*|theta|*max(a, b); at most ~2 px of boundary cross one pixel
        ang_raw = S.angle_rad_raw(sp['angle']) if sp.get('angle') else 0.0
        tol = 1e-8 + 8 * ref.EPS * ang_raw * max(a, b)
        for (ix, iy) in pixels + extra:
            want, degen = _ref_pixel(sp, ix, iy)
            if degen < 1e-7:
                ctx.count('skipped_nongeneric_pixels')
                continue
            got = value(ix, iy)
            n_checked += 1
            ctx.check(math.isfinite(got) and -1e-12 <= got <= 1 + 1e-12,
                      f'{kind} | exact value outside [0, 1]', f'{got!r}')
            ctx.check(abs(got - want) <= tol,
                      f'{kind} | exact value differs from the true overlap area',
                      f'pixel ({ix}, {iy}): library {got!r} true {want!r}')
            if want > 1 - 1e-13:
                ctx.check(abs(got - 1) <= 1e-12,
                          f'{kind} | fully covered pixel is not 1', f'{got!r}')
            if want < 1e-13:
                ctx.check(abs(got) <= 1e-12,
                          f'{kind} | uncovered pixel is not 0', f'{got!r}')
            if 1e-6 < want < 1 - 1e-6:
                nt = True
        ctx.count('pixels_vs_mp', n_checked)
        ctx.nontrivial(nt)


# ---------------------------------------------------------------- lattice ---

LAT_CENTERS = {'quick': [0, 0.25, 0.5, 1.0], 'thorough': [0, 0.25, 0.5, 0.75, 1.0]}
LAT_SIZES = {'quick': [0.25, 0.5, 1, 1.5, 2, 2.5, 3, 5],
             'thorough': [0.25, 0.5, 0.75, 1, 1.5, 2, 2.5, 3, 4, 5]}
LAT_ANGLES = [0, 30, 45, 60, 90, 135, 180, 270]


def lattice(tier):
    out = []
    for cx, cy in itertools.product(LAT_CENTERS[tier], repeat=2):
        for a in LAT_SIZES[tier]:
            for b in LAT_SIZES[tier]:
                for ang in LAT_ANGLES:
                    if a == b:
                        if ang != 0:
                            continue
                        out.append({'kind': 'circle', 'a': float(a),
                                    'center': [float(cx), float(cy)]})
                    out.append({'kind': 'ellipse', 'a': float(a), 'b': float(b),
                                'center': [float(cx), float(cy)],
                                'angle': [float(ang), 'deg', 'Quantity']})
    return out


def lattice_key(sp):
    ang = sp['angle'][0] if sp.get('angle') else 0
    return (f"{sp['kind']} cx={sp['center'][0]:g} cy={sp['center'][1]:g} "
            f"a={sp['a']:g} b={sp.get('b', sp['a']):g} ang={ang:g}")


class Lattice(Relation):
    name = 'C03.lattice'
    exhaustive = True
    shards = {'quick': 16, 'thorough': 16}
    budget_s = {'quick': 300, 'thorough': 3000}

    def cases(self, tier, shard, nshards):
        lat = lattice(tier)
        for i in range(shard, len(lat), nshards):
            yield lat[i]

    def check(self, sp, ctx):
        rs, reg = _build(sp)
        key = lattice_key(sp) + ' | exact mask wrong'
        mask = reg.to_mask('exact')
        d = np.asarray(mask.data)
        bb = mask.bbox
        a = sp['a']
        b = a if sp['kind'] == 'circle' else sp['b']
        ctx.label(sp['kind'])
        if not np.all(np.isfinite(d)):
            ctx.fail(key, 'non-finite value')
        if d.min() < 0 or d.max() > 1 + 1e-12:
            ctx.fail(key, f'value outside [0, 1]: min {d.min()!r} max {d.max()!r}')
        area = math.pi * a * b
        if abs(d.sum() - area) > 1e-8 * max(1.0, area):
            ctx.fail(key, f'sum {d.sum()!r} differs from area {area!r}')
        nt = False
        for j in range(d.shape[0]):
            for i in range(d.shape[1]):
                want, _ = _ref_pixel(sp, bb.ixmin + i, bb.iymin + j)
                if abs(float(d[j, i]) - want) > 1e-8:
                    ctx.fail(key, f'pixel ({bb.ixmin + i}, {bb.iymin + j}): '
                                  f'library {float(d[j, i])!r} true {want!r}')
                if 1e-6 < want < 1 - 1e-6:
                    nt = True
        ctx.count('pixels_vs_mp', d.size)
        ctx.nontrivial(nt)


# ------------------------------------------------------------ convergence ---

NS = [1, 2, 4, 8, 16, 32]


def _conic_pieces(rs, ix, iy, nsamp=4000):
    """Boundary pieces (lengths) of a circle/ellipse inside pixel (ix, iy),
    by fine polyline sampling (lengths over-estimated by 2 %)."""
    cx, cy = map(float, rs['center'])
    if rs['cls'] == 'CirclePixelRegion':
        a = b = float(rs['radius'])
        th = 0.0
    else:
        a, b = rs['width'] / 2.0, rs['height'] / 2.0
        th = ref.angle_rad_reduced(rs['angle']) if rs.get('angle') else 0.0
    c, s = math.cos(th), math.sin(th)
    t = np.linspace(0, 2 * math.pi, nsamp + 1)
    u, v = a * np.cos(t), b * np.sin(t)
    x, y = cx + c * u - s * v, cy + s * u + c * v
    inside = (np.abs(x - ix) <= 0.5) & (np.abs(y - iy) <= 0.5)
    seg = np.hypot(np.diff(x), np.diff(y))
    pieces = []
    cur = 0.0
    active = False
    for k in range(nsamp):
        if inside[k] or inside[k + 1]:
            cur += seg[k]
            active = True
        elif active:
            pieces.append(cur * 1.02)
            cur, active = 0.0, False
    if active:
        pieces.append(cur * 1.02)
    return pieces


def _poly_pieces(vx, vy, ix, iy):
    n = len(vx)
    out = []
    for i in range(n):
        p = (vx[i], vy[i])
        q = (vx[(i + 1) % n], vy[(i + 1) % n])
        l = A.segment_length_in_pixel(p, q, ix, iy)
        if l > 0:
            out.append(l)
    return out


class Convergence(Relation):
    name = 'C03.convergence'
    examples = {'quick': 150, 'thorough': 1200}
    shards = {'quick': 8, 'thorough': 16}

    def strategy(self, tier):
        sz = G.sizes(0.3, 12.0)
        region = st.one_of(
            G.circle(sz, 'near', meta=False),
            G.ellipse(sz, 'near', meta=False, max_ratio=6.0),
            G.rectangle(sz, 'near', meta=False, max_ratio=6.0),
            G.polygon(sz, 'near', meta=False, max_vertices=8,
                      simple_only=True),
            G.regular_polygon(sz, 'near', meta=False, max_vertices=8))
        return st.fixed_dictionaries({'region': region})

    def check(self, spec, ctx):
        import mpmath as mp
        rs = spec['region']
        cls = rs['cls']
        reg = S.build(rs)
        bb = reg.bounding_box
        ny, nx = bb.shape
        ctx.label(cls)
        if ny * nx > 40 * 40 or ny * nx == 0:
            ctx.count('outside_domain_size')
            return
        conic = cls in ('CirclePixelRegion', 'EllipsePixelRegion')
        if conic:
            if cls == 'CirclePixelRegion':
                sp = {'kind': 'circle', 'a': float(rs['radius']),
                      'center': rs['center']}
            else:
                sp = {'kind': 'ellipse', 'a': rs['width'] / 2.0,
                      'b': rs['height'] / 2.0, 'center': rs['center'],
                      'angle': rs.get('angle')}
        else:
            if cls == 'RectanglePixelRegion':
                a, b = rs['width'] / 2.0, rs['height'] / 2.0
                th = ref.angle_rad_reduced(rs['angle']) if rs.get('angle') else 0.0
                c, s = math.cos(th), math.sin(th)
                cx, cy = map(float, rs['center'])
                vx = [cx + c * u - s * v for u, v in
                      ((-a, -b), (a, -b), (a, b), (-a, b))]
                vy = [cy + s * u + c * v for u, v in
                      ((-a, -b), (a, -b), (a, b), (-a, b))]
            elif cls == 'PolygonPixelRegion':
                vx, vy = ref.polygon_vertices(rs)
            else:
                vx, vy = ref.regular_polygon_vertices(rs)
        masks = {n: np.asarray(reg.to_mask('subpixels', n).data) for n in NS}
        nt = False
        for j in range(ny):
            for i in range(nx):
                ix, iy = bb.ixmin + i, bb.iymin + j
                if conic:
                    pieces = _conic_pieces(rs, ix, iy)
                else:
                    pieces = _poly_pieces(vx, vy, ix, iy)
                if conic:
                    truth = _ref_pixel(sp, ix, iy)[0]
                    if truth < 1e-12 or truth > 1 - 1e-12:
                        truth = None
                    elif not pieces:
                        pieces = [0.05]     # arc shorter than the sampling
                else:
                    truth = (A.shoelace(A.clip_polygon_to_pixel(vx, vy, ix, iy))
                             if pieces else None)
                if truth is None:
                    # no boundary in this pixel: all samples agree
                    v = {float(masks[n][j, i]) for n in NS}
                    ctx.check(v in ({0.0}, {1.0}),
                              f'{cls} | boundary-free pixel is not uniformly 0 or 1',
                              f'pixel ({ix}, {iy}) values {sorted(v)}')
                    continue
                for n in NS:
                    bound = sum(4 * math.ceil(l * n + 1e-9) for l in pieces) \
                        / (n * n) + 1e-9
                    err = abs(float(masks[n][j, i]) - truth)
                    ctx.check(err <= min(bound, 1.0) + 1e-9,
                              f'{cls} | subpixel mask does not converge to the '
                              'true overlap',
                              f'pixel ({ix}, {iy}) n={n}: value '
                              f'{float(masks[n][j, i])!r} truth {truth!r} '
                              f'bound {bound!r}')
                    if bound < 0.5 and 1e-3 < truth < 1 - 1e-3:
                        nt = True
        ctx.nontrivial(nt)


RELATIONS = [ExactGeneric(), Lattice(), Convergence()]
