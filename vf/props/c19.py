"""C19 - bounding-box arithmetic is exact integer rectangle algebra.

Oracle: a box is the Python set of its pixels (vf.ref.boxes); every answer of
RegionBoundingBox is re-derived from set operations.  The bounded domain is
enumerated completely; large corners / numpy ints / floats near rounding
boundaries are drawn by Hypothesis.
"""
import itertools
import math

import numpy as np
from hypothesis import strategies as st

from vf.runner import Relation

LEVEL = 'exploration'
RULE = ('Exhaustive part: every box with corners in [lo, hi] (quick [-2, 3], '
        'thorough [-4, 6]; empty boxes included) x every other such box '
        '(pairs), triples over a smaller range, x every image shape up to 7x7 '
        '(0-sized included), and every float rectangle on the 1/8-pixel '
        'lattice over [-3, 3]; random part: corners to +-1e9, numpy integer '
        'types, floats at k +- 1/2 +- few ulp. Oracle = pixel-set model. A '
        'pair is non-trivial when the boxes overlap partially, touch, or one '
        'is empty; a (box, shape) cell when the box straddles an image edge, '
        'is empty, or the image has a zero dimension; a float rectangle when '
        'an edge is within 1/8 px of a rounding boundary. Enumerated cases '
        'are distinct by construction.')
ASSUMPTIONS = [
    'from_float is checked with a tolerance of 4 ulp on the float edges '
    '(xmin + 0.5 is itself rounded); on the dyadic 1/8 lattice the check is '
    'exact',
    'union with an EMPTY operand: only "superset of both pixel sets and '
    'inside the coordinate hull" is required (the statement does not say '
    'whether an empty box has a location)',
    'intersection of merely touching boxes may be None or a zero-area box',
]
EXHAUSTIVE_NOTE = ('C19.pairs, C19.triples, C19.slices and C19.from_float_lattice '
                   'enumerate their bounded domains completely; C19.random does not')


def _bbox():
    from regions import RegionBoundingBox
    return RegionBoundingBox


def pixels(b):
    """The pixel set of a box given as (ixmin, ixmax, iymin, iymax)."""
    return frozenset((x, y) for x in range(b[0], b[1])
                     for y in range(b[2], b[3]))


def all_boxes(lo, hi):
    rng = range(lo, hi + 1)
    iv = [(a, b) for a in rng for b in rng if a <= b]
    return [(x0, x1, y0, y1) for (x0, x1) in iv for (y0, y1) in iv]


def tup(box):
    return (int(box.ixmin), int(box.ixmax), int(box.iymin), int(box.iymax))


def _and(x, y):
    return None if x is None or y is None else x.intersection(y)


def check_pair(ctx, a, b, pa=None, pb=None):
    """All binary-operation clauses for one ordered pair.  Returns whether
    the pair is non-trivial."""
    RB = _bbox()
    spec = {'kind': 'pair', 'a': list(a), 'b': list(b)}
    A, B = RB(*a), RB(*b)
    pa = pixels(a) if pa is None else pa
    pb = pixels(b) if pb is None else pb
    # ---- union
    U = A.union(B)
    ctx.check(isinstance(U, RB), 'union | not a box', repr(U), spec)
    u = tup(U)
    pu = pixels(u)
    ctx.check(pa <= pu and pb <= pu, 'union | loses pixels',
              f'{a} | {b} -> {u}', spec)
    hull = (min(a[0], b[0]), max(a[1], b[1]), min(a[2], b[2]), max(a[3], b[3]))
    if pa and pb:
        both = pa | pb
        xs = [p[0] for p in both]
        ys = [p[1] for p in both]
        want = (min(xs), max(xs) + 1, min(ys), max(ys) + 1)
        ctx.check(u == want, 'union | not the smallest enclosing box',
                  f'{a} | {b} -> {u}, want {want}', spec)
    else:
        ctx.check(hull[0] <= u[0] and u[1] <= hull[1] and hull[2] <= u[2]
                  and u[3] <= hull[3], 'union | outside the coordinate hull',
                  f'{a} | {b} -> {u}', spec)
    ctx.check(tup(A | B) == u, 'union | operator differs from method', '', spec)
    ctx.check(tup(B.union(A)) == u, 'union | not commutative',
              f'{a} | {b}', spec)
    # ---- intersection
    I = A.intersection(B)
    common = pa & pb
    gap = (a[1] < b[0] or b[1] < a[0] or a[3] < b[2] or b[3] < a[2])
    if I is None:
        ctx.check(not common, 'intersection | None although pixels are shared',
                  f'{a} & {b}', spec)
    else:
        ctx.check(isinstance(I, RB), 'intersection | not a box', repr(I), spec)
        ctx.check(not gap, 'intersection | box returned for separated boxes',
                  f'{a} & {b} -> {tup(I)}', spec)
        ctx.check(pixels(tup(I)) == common,
                  'intersection | wrong pixel set',
                  f'{a} & {b} -> {tup(I)}', spec)
    I2 = B.intersection(A)
    ctx.check((I is None) == (I2 is None)
              and (I is None or tup(I) == tup(I2)),
              'intersection | not commutative', f'{a} & {b}', spec)
    I3 = A & B
    ctx.check((I is None) == (I3 is None)
              and (I is None or tup(I) == tup(I3)),
              'intersection | operator differs from method', '', spec)
    # ---- equality
    ctx.check((A == B) == (a == b), 'eq | wrong answer', f'{a} == {b}', spec)
    touching = (not common) and not gap
    partial = bool(common) and common != pa and common != pb
    return partial or touching or not pa or not pb


def check_single(ctx, a):
    RB = _bbox()
    spec = {'kind': 'single', 'a': list(a)}
    A = RB(*a)
    pa = pixels(a)
    ny, nx = A.shape
    ctx.check((ny, nx) == (a[3] - a[2], a[1] - a[0]), 'shape | wrong',
              f'{a} -> {(ny, nx)}', spec)
    ctx.check(ny * nx == len(pa), 'shape | inconsistent with pixel set', '', spec)
    if pa:
        xs = sorted({p[0] for p in pa})
        ys = sorted({p[1] for p in pa})
        cy, cx = A.center
        ctx.check(cx == (xs[0] + xs[-1]) / 2 and cy == (ys[0] + ys[-1]) / 2,
                  'center | not the centre of the pixel set',
                  f'{a} -> {(cy, cx)}', spec)
        ctx.check(tuple(A.extent) == (xs[0] - 0.5, xs[-1] + 0.5, ys[0] - 0.5,
                                      ys[-1] + 0.5),
                  'extent | not the pixel-edge extent', f'{a} -> {A.extent}',
                  spec)
    else:
        ex = A.extent
        ctx.check(ex[1] - ex[0] == nx and ex[3] - ex[2] == ny,
                  'extent | inconsistent with shape', f'{a} -> {ex}', spec)


def check_slices(ctx, a, shape):
    """get_overlap_slices against the pixel-set model.  Returns NT flag."""
    RB = _bbox()
    spec = {'kind': 'slices', 'a': list(a), 'shape': list(shape)}
    ny, nx = shape
    A = RB(*a)
    pa = pixels(a)
    common = {(x, y) for (x, y) in pa if 0 <= x < nx and 0 <= y < ny}
    res = A.get_overlap_slices(shape)
    ctx.check(isinstance(res, tuple) and len(res) == 2,
              'slices | result is not a pair', repr(res), spec)
    large, small = res
    if not common:
        ctx.check(large is None and small is None,
                  'slices | no common pixel but windows returned',
                  f'box {a} shape {shape} -> {res}', spec)
    else:
        ctx.check(large is not None and small is not None,
                  'slices | common pixels but None returned',
                  f'box {a} shape {shape}', spec)
        # apply the slices the way numpy would (negative values wrap)
        ly = list(np.arange(ny)[large[0]])
        lx = list(np.arange(nx)[large[1]])
        sy = list(np.arange(a[3] - a[2])[small[0]] + a[2])
        sx = list(np.arange(a[1] - a[0])[small[1]] + a[0])
        ctx.check(ly == sy and lx == sx,
                  'slices | image window and box window differ',
                  f'box {a} shape {shape} -> {res}', spec)
        got = {(int(x), int(y)) for x in lx for y in ly}
        ctx.check(got == common and len(lx) * len(ly) == len(common),
                  'slices | window is not the common pixel set',
                  f'box {a} shape {shape} -> {res}', spec)
        for s in (*large, *small):
            ctx.check(isinstance(s, slice) and s.step in (None, 1)
                      and s.start is not None and s.stop is not None
                      and s.start >= 0 and s.stop >= 0,
                      'slices | negative or open slice bound',
                      f'box {a} shape {shape} -> {res}', spec)
    inside = bool(pa) and len(common) == len(pa)
    return (not inside) or ny == 0 or nx == 0


def check_from_float(ctx, r, exact):
    """r = (xmin, xmax, ymin, ymax) floats with min <= max."""
    RB = _bbox()
    spec = {'kind': 'from_float', 'rect': [float(v) for v in r],
            'exact': bool(exact)}
    box = RB.from_float(*r)
    b = tup(box)
    for v in b:
        ctx.check(isinstance(v, int), 'from_float | non-int corner', repr(b),
                  spec)
    nt = False
    for lo, hi, ilo, ihi, ax in ((r[0], r[1], b[0], b[1], 'x'),
                                 (r[2], r[3], b[2], b[3], 'y')):
        # the only slack the definition leaves is the rounding of the one
        # addition v + 0.5: half an ulp of the sum (a full ulp is granted)
        tlo = 0.0 if exact else math.ulp(abs(lo) + 0.5)
        thi = 0.0 if exact else math.ulp(abs(hi) + 0.5)
        ctx.check(ilo - 0.5 <= lo + tlo and ihi - 0.5 >= hi - thi,
                  f'from_float | extent does not cover the rectangle ({ax})',
                  f'{r} -> {b}', spec)
        ctx.check(ilo + 0.5 > lo - tlo and ihi - 1.5 < hi + thi,
                  f'from_float | not the smallest box ({ax})',
                  f'{r} -> {b}', spec)
        for v in (lo, hi):
            fr = abs((v + 0.5) - round(v + 0.5))
            if fr <= 0.125:
                nt = True
    # a returned box is the caller's to edit (padding it in place): the next
    # box made from the same rectangle is a new value, not the edited one
    box.ixmin, box.ixmax, box.iymin, box.iymax = (b[0] - 1, b[1] + 1,
                                                  b[2] - 2, b[3] + 2)
    again = RB.from_float(*r)
    ctx.check(again is not box and tup(again) == b,
              'from_float | editing a returned box changes the box made from '
              'the same rectangle next time', f'{r}: {b} -> {tup(again)}', spec)
    return nt


class Pairs(Relation):
    name = 'C19.pairs'
    exhaustive = True
    shards = {'quick': 8, 'thorough': 16}
    ranges = {'quick': (-2, 3), 'thorough': (-4, 6)}

    def cases(self, tier, shard, nshards):
        lo, hi = self.ranges[tier]
        boxes = all_boxes(lo, hi)
        for i in range(shard, len(boxes), nshards):
            yield {'kind': 'row', 'a': list(boxes[i]), 'lo': lo, 'hi': hi}

    def check(self, spec, ctx):
        if spec['kind'] == 'pair':
            nt = check_pair(ctx, tuple(spec['a']), tuple(spec['b']))
            ctx.nontrivial(nt)
            return
        boxes = all_boxes(spec['lo'], spec['hi'])
        cache = getattr(self, '_px', None)
        if cache is None or cache[0] != (spec['lo'], spec['hi']):
            cache = ((spec['lo'], spec['hi']), {b: pixels(b) for b in boxes})
            self._px = cache
        px = cache[1]
        a = tuple(spec['a'])
        check_single(ctx, a)
        n_nt = 0
        for b in boxes:
            n_nt += bool(check_pair(ctx, a, b, px[a], px[b]))
        ctx.add_enumerated(len(boxes), n_nt,
                           {'kind': 'pair', 'a': list(a), 'b': list(boxes[-1])})
        ctx.evaluations -= 1     # the row itself is not a case


class Triples(Relation):
    name = 'C19.triples'
    exhaustive = True
    shards = {'quick': 8, 'thorough': 16}
    ranges = {'quick': (-1, 2), 'thorough': (-2, 2)}

    def cases(self, tier, shard, nshards):
        lo, hi = self.ranges[tier]
        boxes = all_boxes(lo, hi)
        for i in range(shard, len(boxes), nshards):
            yield {'kind': 'row', 'a': list(boxes[i]), 'lo': lo, 'hi': hi}

    def check_triple(self, ctx, a, b, c):
        RB = _bbox()
        spec = {'kind': 'triple', 'a': list(a), 'b': list(b), 'c': list(c)}
        A, B, C = RB(*a), RB(*b), RB(*c)
        ctx.check(tup((A | B) | C) == tup(A | (B | C)),
                  'union | not associative', f'{a} {b} {c}', spec)
        l = _and(_and(A, B), C)
        r = _and(A, _and(B, C))
        ctx.check((l is None) == (r is None)
                  and (l is None or tup(l) == tup(r)),
                  'intersection | not associative', f'{a} {b} {c}', spec)
        if l is not None:
            ctx.check(pixels(tup(l)) == pixels(a) & pixels(b) & pixels(c),
                      'intersection | triple has wrong pixel set',
                      f'{a} {b} {c}', spec)
        return l is None or not pixels(tup(l)) or len({a, b, c}) == 3

    def check(self, spec, ctx):
        if spec['kind'] == 'triple':
            ctx.nontrivial(self.check_triple(ctx, tuple(spec['a']),
                                             tuple(spec['b']),
                                             tuple(spec['c'])))
            return
        boxes = all_boxes(spec['lo'], spec['hi'])
        a = tuple(spec['a'])
        n = n_nt = 0
        for b in boxes:
            for c in boxes:
                n += 1
                n_nt += bool(self.check_triple(ctx, a, b, c))
        ctx.add_enumerated(n, n_nt, {'kind': 'triple', 'a': list(a),
                                     'b': list(boxes[1]), 'c': list(boxes[-2])})
        ctx.evaluations -= 1


class Slices(Relation):
    name = 'C19.slices'
    exhaustive = True
    shards = {'quick': 8, 'thorough': 16}
    ranges = {'quick': ((-2, 3), 4), 'thorough': ((-4, 6), 7)}

    def cases(self, tier, shard, nshards):
        (lo, hi), smax = self.ranges[tier]
        boxes = all_boxes(lo, hi)
        for i in range(shard, len(boxes), nshards):
            yield {'kind': 'row', 'a': list(boxes[i]), 'smax': smax}

    def check(self, spec, ctx):
        if spec['kind'] == 'slices':
            ctx.nontrivial(check_slices(ctx, tuple(spec['a']),
                                        tuple(spec['shape'])))
            return
        a = tuple(spec['a'])
        n = n_nt = 0
        # the box and - in the same process, with the same image shape - the
        # boxes that differ from it by one in a single corner: an answer must
        # not depend on which boxes were asked about before
        family = [a]
        for k in range(4):
            for d in (-1, 1):
                b = list(a)
                b[k] += d
                if b[0] <= b[1] and b[2] <= b[3]:
                    family.append(tuple(b))
        for ny in range(spec['smax'] + 1):
            for nx in range(spec['smax'] + 1):
                n += 1
                n_nt += bool(check_slices(ctx, a, (ny, nx)))
                for b in family[1:]:
                    check_slices(ctx, b, (ny, nx))
                check_slices(ctx, a, (ny, nx))
        ctx.add_enumerated(n, n_nt, {'kind': 'slices', 'a': list(a),
                                     'shape': [spec['smax'], 1]})
        ctx.evaluations -= 1


class FromFloatLattice(Relation):
    name = 'C19.from_float_lattice'
    exhaustive = True
    shards = {'quick': 4, 'thorough': 16}
    ranges = {'quick': (-12, 12), 'thorough': (-24, 24)}   # eighths

    def cases(self, tier, shard, nshards):
        lo, hi = self.ranges[tier]
        vals = list(range(lo, hi + 1))
        iv = [(a, b) for a in vals for b in vals if a <= b]
        for i in range(shard, len(iv), nshards):
            yield {'kind': 'row', 'x': list(iv[i]), 'lo': lo, 'hi': hi}

    def check(self, spec, ctx):
        if spec['kind'] == 'from_float':
            ctx.nontrivial(check_from_float(ctx, spec['rect'], spec['exact']))
            return
        vals = range(spec['lo'], spec['hi'] + 1)
        x0, x1 = spec['x']
        n = n_nt = 0
        for y0 in vals:
            for y1 in vals:
                if y0 > y1:
                    continue
                n += 1
                n_nt += bool(check_from_float(
                    ctx, (x0 / 8, x1 / 8, y0 / 8, y1 / 8), True))
        ctx.add_enumerated(n, n_nt, {'kind': 'from_float',
                                     'rect': [x0 / 8, x1 / 8, -0.5, 0.625],
                                     'exact': True})
        ctx.evaluations -= 1


def _nudge(v, k):
    if isinstance(k, float):
        return v + k
    for _ in range(abs(k)):
        v = math.nextafter(v, math.inf if k > 0 else -math.inf)
    return v


# distances from a pixel edge: 1..4 ulps, and absolute offsets down the scale
# at which a 'snap to the edge' tolerance would act
NUDGES = ([0, 0, 1, -1, 2, -2, 3, -3, 4, -4]
          + [s * d for d in (2.0 ** -44, 1e-12, 2.0 ** -33, 0.9e-9, 1e-7, 1e-5)
             for s in (1, -1)])


INT_TYPES = ['int', 'int64', 'int32', 'intp', 'uint?']


class Random(Relation):
    name = 'C19.random'
    examples = {'quick': 1500, 'thorough': 20000}
    shards = {'quick': 4, 'thorough': 16}

    def strategy(self, tier):
        big = st.integers(-10**9, 10**9)
        near = st.integers(-6, 6)
        base = st.one_of(big, near, st.sampled_from(
            [-10**9, 10**9 - 1, 10**9, 0]))

        # widths at which products / sums of fixed-width integers wrap
        # (2^k, 2^k +- 1, sqrt(2^31), sqrt(2^63)): corners stay within 1e9
        wrap = st.one_of(
            st.tuples(st.integers(0, 30), st.integers(-1, 1)).map(
                lambda t: max(0, 2 ** t[0] + t[1])),
            st.sampled_from([46340, 46341, 65535, 65536, 65537, 92682,
                             2 ** 31 - 2 * 10 ** 9, 2 * 10 ** 9]))

        def interval():
            plain = st.tuples(base, st.one_of(st.integers(0, 12),
                                              st.integers(0, 10**9))).map(
                lambda t: (t[0], min(t[0] + t[1], 10**9)))
            wrapping = st.tuples(base, wrap).map(
                lambda t: (max(-10**9, min(t[0], 10**9 - t[1])),
                           max(-10**9, min(t[0], 10**9 - t[1])) + t[1]))
            return st.one_of(plain, plain, wrapping)

        box = st.tuples(interval(), interval()).map(
            lambda t: [t[0][0], t[0][1], t[1][0], t[1][1]])
        rel_box = st.tuples(box, st.tuples(st.integers(-8, 8), st.integers(0, 9),
                                           st.integers(-8, 8), st.integers(0, 9)))

        def fl():
            k = st.integers(-10**6, 10**6)
            small = st.integers(-8, 8)
            return st.one_of(
                st.tuples(st.one_of(k, small), st.sampled_from([0.5, -0.5, 0.0]),
                          st.sampled_from(NUDGES)).map(
                    lambda t: _nudge(t[0] + t[1], t[2])),
                st.floats(-1e9, 1e9, allow_nan=False),
                st.floats(-10, 10, allow_nan=False))

        rect = st.tuples(fl(), fl(), fl(), fl()).map(
            lambda t: [min(t[0], t[1]), max(t[0], t[1]),
                       min(t[2], t[3]), max(t[2], t[3])])
        return st.one_of(
            st.fixed_dictionaries({'kind': st.just('pair'), 'a': box,
                                   'b': box, 'ta': st.sampled_from(INT_TYPES[:4]),
                                   'tb': st.sampled_from(INT_TYPES[:4])}),
            st.fixed_dictionaries({'kind': st.just('near'), 'ab': rel_box,
                                   'ta': st.sampled_from(INT_TYPES[:4])}),
            st.fixed_dictionaries({'kind': st.just('slices'), 'a': box,
                                   'ta': st.sampled_from(INT_TYPES[:4]),
                                   'shape': st.tuples(
                                       st.one_of(st.integers(0, 9),
                                                 st.integers(0, 10**9)),
                                       st.one_of(st.integers(0, 9),
                                                 st.integers(0, 10**9)))}),
            st.fixed_dictionaries({'kind': st.just('from_float'),
                                   'rect': rect}),
            # a box whose corners are re-assigned after its derived values
            # were read (padding a box in place), and an edited copy
            st.fixed_dictionaries({'kind': st.just('edit'), 'a': box, 'b': box,
                                   'how': st.sampled_from(['assign', 'copy'])}),
            st.fixed_dictionaries({'kind': st.just('invalid'),
                                   'a': box, 'pos': st.integers(0, 3),
                                   'bad': st.sampled_from(
                                       ['float', 'half', 'str', 'none', 'list',
                                        'inverted_x', 'inverted_y'])}),
        )

    @staticmethod
    def _cast(vals, t):
        if t == 'int':
            return [int(v) for v in vals]
        ty = getattr(np, t)
        return [ty(v) for v in vals]

    def check(self, spec, ctx):
        RB = _bbox()
        kind = spec['kind']
        ctx.label(kind)
        if kind in ('pair', 'near'):
            if kind == 'near':
                a, d = spec['ab']
                a = list(a)
                b = [a[0] + d[0], a[0] + d[0] + d[1], a[2] + d[2],
                     a[2] + d[2] + d[3]]
                tb = spec['ta']
            else:
                a, b = list(spec['a']), list(spec['b'])
                tb = spec['tb']
            A = RB(*self._cast(a, spec['ta']))
            B = RB(*self._cast(b, tb))
            # interval model (sets of 1e18 pixels cannot be materialised)
            u = tup(A | B)
            ctx.check(u == (min(a[0], b[0]), max(a[1], b[1]), min(a[2], b[2]),
                            max(a[3], b[3])),
                      'union | large corners wrong', f'{a} | {b} -> {u}')
            ctx.check(tup(B | A) == u, 'union | not commutative')
            I = A & B
            ix = (max(a[0], b[0]), min(a[1], b[1]))
            iy = (max(a[2], b[2]), min(a[3], b[3]))
            common = ix[0] < ix[1] and iy[0] < iy[1]
            gap = ix[0] > ix[1] or iy[0] > iy[1]
            if common:
                ctx.check(I is not None and tup(I) == (*ix, *iy),
                          'intersection | large corners wrong',
                          f'{a} & {b} -> {I}')
            elif gap:
                ctx.check(I is None,
                          'intersection | box returned for separated boxes',
                          f'{a} & {b} -> {I}')
            else:
                ctx.check(I is None or (tup(I)[0] == tup(I)[1]
                                        or tup(I)[2] == tup(I)[3]),
                          'intersection | touching boxes give pixels',
                          f'{a} & {b} -> {I}')
            I2 = B & A
            ctx.check((I is None) == (I2 is None)
                      and (I is None or tup(I) == tup(I2)),
                      'intersection | not commutative')
            sh = A.shape
            ctx.check(tuple(int(v) for v in sh) == (a[3] - a[2], a[1] - a[0]),
                      'shape | wrong for numpy ints', f'{a} -> {sh}')
            cy, cx = A.center
            ctx.check(float(cx) == (a[0] + a[1] - 1) / 2
                      and float(cy) == (a[2] + a[3] - 1) / 2,
                      'center | wrong for large/numpy ints', f'{a} -> {(cy, cx)}')
            ctx.check((A == B) == (a == b), 'eq | wrong answer')
            # operands that are not boxes are refused, not coerced
            for nm, f in (('eq', lambda: A == (a[0], a[1], a[2], a[3])),
                          ('union', lambda: A | 3),
                          ('intersection', lambda: A & None)):
                try:
                    got = f()
                except TypeError:
                    pass
                else:
                    ctx.fail(f'{nm} | an operand that is not a box is '
                             'accepted', repr(got))
            try:
                A.get_overlap_slices((5,))
            except ValueError:
                pass
            else:
                ctx.fail('slices | a 1-element image shape is accepted')
            if a[0] < a[1] and a[2] < a[3] and max(map(abs, a)) < 2 ** 40:
                # the box as a region: a rectangle whose own box is the box
                reg = A.to_region()
                ctx.check(type(reg).__name__ == 'RectanglePixelRegion'
                          and (reg.width, reg.height)
                          == (a[1] - a[0], a[3] - a[2])
                          and (float(reg.center.x), float(reg.center.y))
                          == ((a[0] + a[1] - 1) / 2, (a[2] + a[3] - 1) / 2),
                          'to_region | not the rectangle of the box',
                          f'{a} -> {reg!r}')
                if max(map(abs, a)) < 2 ** 30:
                    ctx.check(tup(reg.bounding_box) == tuple(a),
                              'to_region | the rectangle\'s bounding box is '
                              'not the box', f'{a} -> {reg.bounding_box!r}')
            ctx.nontrivial(spec['ta'] != 'int' or max(map(abs, a)) > 1000
                           or (not gap and not common))
        elif kind == 'slices':
            a = list(spec['a'])
            ny, nx = spec['shape']
            A = RB(*self._cast(a, spec.get('ta', 'int')))
            large, small = A.get_overlap_slices((ny, nx))
            cx = (max(a[0], 0), min(a[1], nx))
            cy = (max(a[2], 0), min(a[3], ny))
            if cx[0] >= cx[1] or cy[0] >= cy[1]:
                ctx.check(large is None and small is None,
                          'slices | no common pixel but windows returned',
                          f'box {a} shape {(ny, nx)} -> {(large, small)}')
            else:
                ctx.check(large is not None and small is not None,
                          'slices | common pixels but None returned')
                ctx.check((large[0].start, large[0].stop, large[1].start,
                           large[1].stop) == (*cy, *cx),
                          'slices | wrong image window',
                          f'box {a} shape {(ny, nx)} -> {large}')
                ctx.check((small[0].start + a[2], small[0].stop + a[2],
                           small[1].start + a[0], small[1].stop + a[0])
                          == (*cy, *cx) and small[0].start >= 0
                          and small[1].start >= 0,
                          'slices | wrong box window',
                          f'box {a} shape {(ny, nx)} -> {small}')
            ctx.nontrivial(not (0 <= a[0] and a[1] <= nx and 0 <= a[2]
                                and a[3] <= ny) or a[0] == a[1] or a[2] == a[3])
        elif kind == 'from_float':
            ctx.nontrivial(check_from_float(ctx, spec['rect'], False))
        elif kind == 'edit':
            import copy as _copy
            a, b = list(spec['a']), list(spec['b'])
            A = RB(*a)
            derived = lambda X: (X.shape, X.center, X.extent,      # noqa: E731
                                 tup(X | X), repr(X))
            derived(A)
            T = A if spec['how'] == 'assign' else _copy.copy(A)
            T.ixmin, T.ixmax, T.iymin, T.iymax = b
            ctx.check(derived(T) == derived(RB(*b)),
                      f'edit ({spec["how"]}) | shape/centre/extent do not '
                      'follow the corners of the box',
                      lambda: f'{a} -> {b}: {derived(T)[:3]} vs '
                              f'{derived(RB(*b))[:3]}')
            if spec['how'] == 'copy':
                ctx.check(derived(A) == derived(RB(*a)),
                          'edit (copy) | editing a copy changes the original')
            ctx.nontrivial(a != b)
        elif kind == 'invalid':
            a = list(spec['a'])
            bad = spec['bad']
            want = TypeError
            if bad == 'float':
                a[spec['pos']] = float(a[spec['pos']])
            elif bad == 'half':
                a[spec['pos']] = a[spec['pos']] + 0.5
            elif bad == 'str':
                a[spec['pos']] = str(a[spec['pos']])
            elif bad == 'none':
                a[spec['pos']] = None
            elif bad == 'list':
                a[spec['pos']] = [a[spec['pos']]]
            elif bad == 'inverted_x':
                a[0], a[1] = a[1] + 1, a[0]
                want = ValueError
            elif bad == 'inverted_y':
                a[2], a[3] = a[3] + 1, a[2]
                want = ValueError
            try:
                RB(*a)
            except want:
                pass
            except (TypeError, ValueError) as e:
                ctx.fail(f'validation | {bad} raises {type(e).__name__}', repr(a))
            else:
                ctx.fail(f'validation | {bad} accepted', repr(a))
            ctx.nontrivial(True)


RELATIONS = [Pairs(), Triples(), Slices(), FromFloatLattice(), Random()]
