"""C07 - a sky region's pixel image has the size and orientation the WCS dictates."""
import math

import numpy as np
from hypothesis import strategies as st

from vf import spec as S
from vf.gen import regions as G
from vf.gen import wcs as W
from vf.runner import Relation

LEVEL = 'exploration'
RULE = ('Hypothesis draws circle / ellipse / rectangle / the three annuli as '
        'sky regions with sizes of 1-50 px, any angle, in a frame equal to or '
        'different from the WCS frame (ICRS, FK5, FK5 with equinox J1975, '
        'Galactic), and a conformal '
        'WCS (TAN/SIN, any rotation, 1e-5..1e-2 deg/px, standard parity, '
        '|lat| < 85 deg), centre within 300 px of CRPIX. Absolute oracle (no '
        'round trip): the pixel centre is wcs.world_to_pixel(centre); the sky '
        'points at the angular semi-axes (astropy directional_offset_by at '
        'position angles angle-90 deg and angle, and their antipodes; any PA '
        'for circles; inner and outer sizes for annuli) pushed through the WCS '
        'satisfy the pixel shape\'s boundary equation to 1e-6 + 3 phi^2 + 3 '
        'sigma^2; lengths equal angular size / local scale obtained from '
        'finite differences of pixel_to_world. Non-trivial: WCS rotation not a '
        'multiple of 90 deg, region not a circle, width != height. In half '
        'of the cases the WCS object was first used (to_pixel, contains) in '
        'another state - rotation, scale, CRVAL, CRPIX - and then edited in '
        'place: the image must be that of the CURRENT WCS.')
ASSUMPTIONS = [
    'phi = angular distance of the region from the projection centre, sigma '
    '= angular size of the region: off-axis a TAN/SIN projection is '
    'anisotropic by ~phi^2/2 and a finite region sees its curvature by '
    '~sigma^2 (measured worst residual 2.4e-3 against a bound of 8e-3 at 3 deg)',
]

CLASSES = ['CircleSkyRegion', 'EllipseSkyRegion', 'RectangleSkyRegion',
           'CircleAnnulusSkyRegion', 'EllipseAnnulusSkyRegion',
           'RectangleAnnulusSkyRegion']


def strategy():
    px = st.one_of(st.floats(1.0, 50.0), st.floats(1.0, 10.0))
    off = st.floats(-300, 300)
    return st.fixed_dictionaries({
        'cls': st.sampled_from(CLASSES + ['EllipseSkyRegion',
                                          'RectangleSkyRegion']),
        'frame': st.sampled_from(['same', 'same', 'icrs', 'fk5', 'galactic',
                                  'fk5_j1975']),
        'w_px': px, 'h_px': px,
        'f1': st.floats(0.1, 0.9), 'f2': st.floats(0.1, 0.9),
        'unit': st.sampled_from(['arcsec', 'arcmin', 'deg', 'rad']),
        'angle': G.angles(False),
        'off': st.tuples(off, off),
        'pas': st.lists(st.floats(0, 360), min_size=2, max_size=4),
        'wcs': W.wcs_specs(projs=('TAN', 'SIN'), frames=('icrs', 'fk5',
                                                         'galactic',
                                                         'fk5_j1975'),
                           scale=(1e-5, 1e-2), parities=(-1,), past=False),
        # the WCS OBJECT has a past: it is first used in another state
        # (rotation, scale, reference point) and then edited in place
        'pre': st.one_of(st.none(), st.fixed_dictionaries({
            'drot': st.floats(-170, 170), 'fscale': st.floats(-0.4, 0.4),
            'dcrval': st.tuples(st.floats(-30, 30), st.floats(-30, 30)),
            'dcrpix': st.tuples(st.floats(-40, 40), st.floats(-40, 40))})),
    })


def local_scale(wcs, x, y):
    """deg/pixel from finite differences in two orthogonal pixel directions
    (independent of the helper under test)."""
    h = 0.5
    c = wcs.pixel_to_world(x, y)
    sx = wcs.pixel_to_world(x + h, y).separation(wcs.pixel_to_world(x - h, y)).deg / (2 * h)
    sy = wcs.pixel_to_world(x, y + h).separation(wcs.pixel_to_world(x, y - h)).deg / (2 * h)
    return math.sqrt(sx * sy), c


class Image(Relation):
    name = 'C07.image'
    examples = {'quick': 500, 'thorough': 4000}
    shards = {'quick': 8, 'thorough': 16}

    def strategy(self, tier):
        return strategy()

    def check(self, sp, ctx):
        import astropy.units as u
        import regions as R
        w = sp['wcs']
        wcs = S.build_wcs(w)
        cls = sp['cls']
        x0, y0 = w['crpix'][0] - 1 + sp['off'][0], w['crpix'][1] - 1 + sp['off'][1]
        scale, c_wcs = local_scale(wcs, x0, y0)       # deg / px
        frame = w['frame'] if sp['frame'] == 'same' else sp['frame']
        center = c_wcs.transform_to(S.skycoord(
            {'frame': frame, 'lon': 0.0, 'lat': 0.0}).frame)
        unit = u.Unit(sp['unit'])
        wq = (sp['w_px'] * scale * u.deg).to(unit)
        hq = (sp['h_px'] * scale * u.deg).to(unit)
        ang = S.angle(sp['angle'])
        if cls == 'CircleSkyRegion':
            reg = R.CircleSkyRegion(center, wq / 2)
            shapes = [('radius', wq / 2, wq / 2)]
        elif cls == 'CircleAnnulusSkyRegion':
            reg = R.CircleAnnulusSkyRegion(center, wq / 2 * sp['f1'], wq / 2)
            shapes = [('inner', wq / 2 * sp['f1'], wq / 2 * sp['f1']),
                      ('outer', wq / 2, wq / 2)]
        elif cls in ('EllipseSkyRegion', 'RectangleSkyRegion'):
            reg = getattr(R, cls)(center, wq, hq, ang)
            shapes = [('', wq / 2, hq / 2)]
        else:
            reg = getattr(R, cls)(center, wq * sp['f1'], wq, hq * sp['f2'], hq,
                                  ang)
            shapes = [('inner', wq * sp['f1'] / 2, hq * sp['f2'] / 2),
                      ('outer', wq / 2, hq / 2)]
        from vf.fingerprint import fp
        if sp.get('pre'):
            # same WCS object, other state first: convert / query, then edit
            # the object in place (as an astrometric refinement would)
            pre = sp['pre']
            w0 = dict(w, rot=w['rot'] + pre['drot'],
                      scale=w['scale'] * 10.0 ** pre['fscale'],
                      crval=[(w['crval'][0] + pre['dcrval'][0] * w['scale']) % 360.0,
                             max(-85.0, min(85.0, w['crval'][1]
                                            + pre['dcrval'][1] * w['scale']))],
                      crpix=[w['crpix'][0] + pre['dcrpix'][0],
                             w['crpix'][1] + pre['dcrpix'][1]])
            target = wcs
            wcs = S.build_wcs(w0)
            try:
                reg.to_pixel(wcs)
                reg.contains(center, wcs)
            except Exception:   # noqa: BLE001 - the earlier state is not judged
                pass
            wcs.wcs.cd = target.wcs.cd
            wcs.wcs.crval = target.wcs.crval
            wcs.wcs.crpix = target.wcs.crpix
            wcs.wcs.lonpole = target.wcs.lonpole
            wcs.wcs.latpole = target.wcs.latpole
            ctx.label('wcs:edited-in-place')
        # the conversion is a pure function of (region, wcs): converting the
        # same region again gives the same image, and the region is untouched
        fp_reg = fp(reg)
        first = reg.to_pixel(wcs)
        fp_first = fp(first)
        pix = reg.to_pixel(wcs)
        ctx.check(fp(reg) == fp_reg,
                  f'{cls} | to_pixel modifies the sky region')
        ctx.check(fp(pix) == fp_first and fp(first) == fp_first,
                  f'{cls} | a second to_pixel of the same region gives a '
                  'different image')
        ctx.label(cls, W.rot_family(w), 'proj:' + w['proj'],
                  'frame:' + ('same' if frame == w['frame'] else 'other'))
        # (a) centre
        cx, cy = (float(v) for v in wcs.world_to_pixel(center))
        ctx.check(abs(pix.center.x - cx) <= 1e-6 and abs(pix.center.y - cy) <= 1e-6,
                  f'{cls} | pixel centre is not the WCS image of the sky centre',
                  f'{(pix.center.x, pix.center.y)} vs {(cx, cy)}')
        # tolerance: projection anisotropy off-axis + curvature over the region
        phi = math.radians(math.hypot(*sp['off']) * w['scale'])
        sigma = math.radians(max(sp['w_px'], sp['h_px']) * scale)
        tol = 1e-6 + 3 * phi ** 2 + 3 * sigma ** 2
        is_circ = cls.startswith('Circle')
        is_rect = cls.startswith('Rectangle')
        th = None if is_circ else pix.angle.to_value('rad')
        names = {'': ('width', 'height'), 'inner': ('inner_width', 'inner_height'),
                 'outer': ('outer_width', 'outer_height')}
        for part, a_sky, b_sky in shapes:
            if is_circ:
                rname = {'radius': 'radius', 'inner': 'inner_radius',
                         'outer': 'outer_radius'}[part]
                r_pix = getattr(pix, rname)
                # (c) length = angular size / local scale
                want = a_sky.to_value(u.deg) / scale
                ctx.check(abs(r_pix / want - 1) <= tol,
                          f'{cls} | {rname} is not angular size / pixel scale',
                          f'{r_pix!r} vs {want!r} (tol {tol:.2e})')
                for pa in sp['pas']:
                    p = center.directional_offset_by(pa * u.deg, a_sky)
                    px_, py_ = (float(v) for v in wcs.world_to_pixel(p))
                    q = math.hypot(px_ - cx, py_ - cy) / r_pix
                    ctx.check(abs(q - 1) <= tol,
                              f'{cls} | sky point at the angular {rname} is '
                              'not on the pixel circle',
                              f'PA {pa}: q = {q!r} (tol {tol:.2e})')
                continue
            wn, hn = names[part]
            a_pix, b_pix = getattr(pix, wn) / 2, getattr(pix, hn) / 2
            for nm, got, sky in ((wn, a_pix, a_sky), (hn, b_pix, b_sky)):
                want = sky.to_value(u.deg) / scale
                ctx.check(abs(got / want - 1) <= tol,
                          f'{cls} | {nm} is not angular size / pixel scale',
                          f'{2 * got!r} vs {2 * want!r} (tol {tol:.2e})')
            c, s = math.cos(th), math.sin(th)
            # (b) sky points at the semi-axes land on the boundary
            for pa_off, sky_len, axis in ((-90.0, a_sky, 'width'),
                                          (90.0, a_sky, 'width'),
                                          (0.0, b_sky, 'height'),
                                          (180.0, b_sky, 'height')):
                p = center.directional_offset_by(ang + pa_off * u.deg, sky_len)
                px_, py_ = (float(v) for v in wcs.world_to_pixel(p))
                dx, dy = px_ - cx, py_ - cy
                uu, vv = c * dx + s * dy, -s * dx + c * dy
                if is_rect:
                    q = abs(uu) / a_pix if axis == 'width' else abs(vv) / b_pix
                    cross = abs(vv) / b_pix if axis == 'width' else abs(uu) / a_pix
                    ok = abs(q - 1) <= tol and cross <= max(tol, 1e-6) * max(
                        a_pix / b_pix, b_pix / a_pix) + tol
                else:
                    q = (uu / a_pix) ** 2 + (vv / b_pix) ** 2
                    # the point must also sit ON the right axis
                    cross = abs(vv) / b_pix if axis == 'width' else abs(uu) / a_pix
                    ok = abs(q - 1) <= 2 * tol and cross <= (
                        tol * max(a_pix / b_pix, b_pix / a_pix) + tol)
                ctx.check(ok, f'{cls} | sky point at the angular semi-{axis} '
                          f'({part or "shape"}) is not where the pixel shape '
                          'has that semi-axis',
                          f'PA angle{pa_off:+.0f}: q = {q!r}, off-axis '
                          f'{cross!r} (tol {tol:.2e}); pixel angle '
                          f'{math.degrees(th)!r}')
        ratio = sp['w_px'] / sp['h_px']
        ctx.nontrivial(W.rot_family(w) == 'wcsrot:generic' and not is_circ
                       and abs(math.log(ratio)) > 0.05)


RELATIONS = [Image()]
