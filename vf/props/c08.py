"""C08 - compound regions and annuli obey set algebra."""
import math

import numpy as np
from hypothesis import strategies as st

from vf import spec as S
from vf.gen import queries as Q
from vf.gen import regions as G
from vf.gen import wcs as W
from vf.ref import geometry as ref
from vf.runner import Relation

LEVEL = 'exploration'
RULE = ('C08.algebra: Hypothesis draws nested and/or/xor expressions (depth '
        '<= 3, built through the operators, the methods and the constructor) '
        'over maskable pixel regions placed near each other (overlapping, '
        'nested, disjoint, touching; different padding on each side), include '
        'flags on operands and on the compound; at every compound node: '
        'contains = op(operand answers) negated iff the compound include flag '
        'is false (pure algebra on the library\'s own operand answers, plus '
        'the reference margins), centre mask = op of the operand masks placed '
        'on the union box by a dict-of-pixels model, box = union, non-centre '
        'modes raise. C08.commute: (A op B).to_sky(w) == A.to_sky(w) op '
        'B.to_sky(w) component-wise with operator and meta/visual preserved; '
        'same for to_pixel and rotate; sky membership = op of the operands. '
        'C08.annulus: contains = outer and not inner from independently built '
        'component regions, area = difference, mask = xor. Non-trivial: the '
        'operand boxes differ on >= 2 sides and the operand masks overlap '
        'partially, or an include flag is false somewhere.')
ASSUMPTIONS = [
    'masks ignore include flags (C02); the mask relation is therefore stated '
    'on the operand masks as the library produces them',
]


def _near_leaf(annuli=True):
    return G.maskable(G.sizes(0.4, 30.0), cmode='near', max_ratio=8.0,
                      annuli=annuli)


def _cluster(leaf):
    """Move every leaf's centre close to a common anchor so operands
    overlap / nest / touch with comparable frequency."""
    def mk(t):
        spec, ax, ay, offs = t
        k = [0]

        def walk(s):
            s = dict(s)
            if s['cls'] == 'CompoundPixelRegion':
                s['r1'], s['r2'] = walk(s['r1']), walk(s['r2'])
                return s
            ox, oy = offs[k[0] % len(offs)]
            k[0] += 1
            c = ref.center_of(s)
            dx, dy = ax + ox - c[0], ay + oy - c[1]
            if 'center' in s:
                s['center'] = [ax + ox, ay + oy]
            if 'vertices' in s:
                s['vertices'] = [[v + dx for v in s['vertices'][0]],
                                 [v + dy for v in s['vertices'][1]]]
                s.pop('origin', None)
            return s
        return walk(spec)
    off = st.one_of(st.floats(-25, 25), st.integers(-40, 40).map(
        lambda v: v / 2.0), st.just(0.0))
    return st.tuples(leaf, G.coord1('near'), G.coord1('near'),
                     st.lists(st.tuples(off, off), min_size=8, max_size=8)
                     ).map(mk)


def _place(mask, box):
    """dict placement of a mask on a box (x0, x1, y0, y1) -> 2-D int array."""
    x0, x1, y0, y1 = box
    out = np.zeros((y1 - y0, x1 - x0), dtype=int)
    bb = mask.bbox
    d = np.asarray(mask.data)
    for j in range(d.shape[0]):
        for i in range(d.shape[1]):
            X, Y = bb.ixmin + i, bb.iymin + j
            out[Y - y0, X - x0] = int(d[j, i])
    return out


def _bt(bb):
    return (bb.ixmin, bb.ixmax, bb.iymin, bb.iymax)


class Algebra(Relation):
    name = 'C08.algebra'
    examples = {'quick': 350, 'thorough': 4000}
    shards = {'quick': 8, 'thorough': 16}

    def strategy(self, tier):
        base = _cluster(G.compound(_near_leaf(), max_depth=3))

        # twins: the second operand is the first one moved by a few 1e-6 of
        # its (large) coordinates - the two compare EQUAL (PixCoord.__eq__
        # is allclose with rtol 1e-5) and are different regions all the same
        def twins(t):
            spec, far, frac, sx, sy = t
            r1 = spec['r1']
            if r1['cls'] == 'CompoundPixelRegion':
                return spec
            from vf.props.c15 import translate
            a = translate(r1, sx * far, sy * 0.75 * far)
            a.pop('origin', None)
            b = translate(a, frac * far, -0.5 * frac * far)
            return dict(spec, r1=a, r2=b, twins=True)
        tw = st.tuples(base, st.floats(5, 6).map(lambda e: 10.0 ** e),
                       st.floats(2e-6, 8e-6), st.sampled_from([-1, 1]),
                       st.sampled_from([-1, 1])).map(twins)
        return st.fixed_dictionaries({
            'query': Q.query_strategy(32),
            'region': st.one_of(base, base, base, base, tw),
        })

    def check(self, sp, ctx):
        from regions import PixCoord
        rs = sp['region']
        q = dict(sp['query'])
        if q['layout'] in ('empty', 'scalar', 'len1'):
            q['layout'] = '1d'
        x, y = Q.materialise(rs, q)
        pc = PixCoord(x, y)
        nt = [False]
        ctx.label('depth:%d' % G.depth(rs))

        def node(s):
            reg = S.build(s)
            if s['cls'] != 'CompoundPixelRegion':
                return reg
            a, b = node(s['r1']), node(s['r2'])
            op = S.OPS[s['op']]
            tag = f"op={s['op']}"
            ctx.check(reg.operator is op, f'{tag} | wrong operator stored')
            # (a) membership
            inc = bool(reg.meta.get('include', True))
            want_inc = bool(ref._compound_meta(s).get('include', True))
            ctx.check(inc == want_inc,
                      f'{tag} | compound include flag is not the one supplied '
                      '(or region1\'s)', f'{inc} vs {want_inc}')
            ca, cb = np.asarray(a.contains(pc)), np.asarray(b.contains(pc))
            want = op(ca, cb)
            if not inc:
                want = ~want
            got = np.asarray(reg.contains(pc))
            ctx.check(got.shape == want.shape and np.array_equal(got, want),
                      f'{tag} include={inc} | contains is not op(operand '
                      'answers)', lambda: f'{int((got != want).sum())} of '
                                          f'{want.size} points')
            # (b) box and centre mask
            ba, bb_ = _bt(a.bounding_box), _bt(b.bounding_box)
            ub = (min(ba[0], bb_[0]), max(ba[1], bb_[1]), min(ba[2], bb_[2]),
                  max(ba[3], bb_[3]))
            ctx.check(_bt(reg.bounding_box) == ub,
                      f'{tag} | box is not the union of the operand boxes',
                      f'{reg.bounding_box} vs {ub}')
            if (ub[1] - ub[0]) * (ub[3] - ub[2]) <= 160 * 160:
                ma, mb = a.to_mask('center'), b.to_mask('center')
                m = reg.to_mask('center')
                wantm = op(_place(ma, ub), _place(mb, ub))
                ctx.check(_bt(m.bbox) == ub and np.asarray(m.data).shape
                          == wantm.shape,
                          f'{tag} | mask box/shape is not the union box')
                gm = np.asarray(m.data)
                ctx.check(np.array_equal(gm, wantm),
                          f'{tag} | centre mask is not op(operand masks) on '
                          'the union box',
                          lambda: f'{int((gm != wantm).sum())} pixels differ; '
                                  f'operand boxes {ba} {bb_}')
                sides = sum(1 for u, v in zip(ba, bb_) if u != v)
                pa, pb = _place(ma, ub) > 0, _place(mb, ub) > 0
                partial = (pa & pb).any() and (pa & ~pb).any() and (pb & ~pa).any()
                if sides >= 2 and partial:
                    nt[0] = True
            else:
                ctx.count('mask_skipped_large')
            if not inc or not bool(a.meta.get('include', True)) \
                    or not bool(b.meta.get('include', True)):
                nt[0] = True
            # (e) other modes
            for mode in ('exact', 'subpixels'):
                try:
                    reg.to_mask(mode, 3)
                except NotImplementedError:
                    pass
                else:
                    ctx.fail(f'{tag} | mode {mode} returns a mask for a compound')
            try:
                reg.area
            except NotImplementedError:
                pass
            return reg

        node(rs)
        # reference margins as a second, independent opinion
        xx, yy = np.asarray(x, float), np.asarray(y, float)
        want, definite = ref.contains_ref(rs, xx, yy)
        got = np.asarray(S.build(rs).contains(pc))
        bad = definite & (got != want)
        ctx.check(not bad.any(), 'compound | membership differs from the '
                  'reference definition',
                  lambda: f'{int(bad.sum())} of {bad.size} points')
        ctx.nontrivial(nt[0])


class Commute(Relation):
    name = 'C08.commute'
    examples = {'quick': 120, 'thorough': 1500}
    shards = {'quick': 8, 'thorough': 16}

    def strategy(self, tier):
        leaf = st.one_of(_near_leaf(), G.point('near'), G.line('near'))
        return st.fixed_dictionaries({
            'theta': G.angles(False),
            'pivot': st.tuples(G.coord1('near'), G.coord1('near')).map(list),
            'wcs': W.wcs_specs(scale=(0.01 / 3600, 0.01)),
            'cmeta': st.sampled_from([None, {'include': False}, {},
                                      {'text': 'cmp', 'include': True}]),
            'cvisual': st.sampled_from([None, {'color': 'green'}, {}]),
            'cvia': st.sampled_from(['ctor', 'assign']),
            'inc1': st.sampled_from([None, None, False, True]),
            'region': _cluster(G.compound(leaf, max_depth=2,
                                          with_meta=False)),
            'query': Q.query_strategy(12),
        })

    def check(self, sp, ctx):
        from regions import (CompoundPixelRegion, CompoundSkyRegion, PixCoord,
                             RegionMeta, RegionVisual)
        rs = dict(sp['region'])
        # keep everything within a few hundred pixels of CRPIX
        cr = sp['wcs']['crpix']
        rs = _shift_to(rs, cr)
        a, b = S.build(rs['r1']), S.build(rs['r2'])
        if sp.get('inc1') is not None:
            a.meta['include'] = sp['inc1']      # include flag on operand 1
        op = S.OPS[rs['op']]
        kw = {}
        if sp['cmeta'] is not None:
            kw['meta'] = RegionMeta(sp['cmeta'])
        if sp['cvisual'] is not None:
            kw['visual'] = RegionVisual(sp['cvisual'])
        if kw and sp.get('cvia') == 'assign':
            # made by the operator; its own meta / visual ASSIGNED afterwards
            comp = op(a, b)
            comp.bounding_box
            for k_, v_ in kw.items():
                setattr(comp, k_, v_)
        else:
            comp = CompoundPixelRegion(a, b, op, **kw) if kw else op(a, b)
        ctx.label('op:' + rs['op'], W.rot_family(sp['wcs']),
                  'cmeta:' + ('none' if sp['cmeta'] is None else 'given'))
        want_meta, want_visual = dict(comp.meta), dict(comp.visual)
        wcs = S.build_wcs(sp['wcs'],
                          warm=lambda x: comp.to_sky(x).to_pixel(x))
        # ---- to_sky
        sky = comp.to_sky(wcs)
        ctx.check(isinstance(sky, CompoundSkyRegion) and sky.operator is op,
                  'to_sky | class or operator not preserved')
        ctx.check(sky.region1 == a.to_sky(wcs) and sky.region2 == b.to_sky(wcs),
                  'to_sky | components differ from converting the operands')
        ctx.check(dict(sky.meta) == want_meta and dict(sky.visual) == want_visual,
                  'to_sky | compound meta/visual not preserved',
                  f'{dict(sky.meta)} {dict(sky.visual)} vs {want_meta} '
                  f'{want_visual}')
        # ---- back to pixel
        pix = sky.to_pixel(wcs)
        ctx.check(isinstance(pix, CompoundPixelRegion) and pix.operator is op,
                  'to_pixel | class or operator not preserved')
        ctx.check(pix.region1 == sky.region1.to_pixel(wcs)
                  and pix.region2 == sky.region2.to_pixel(wcs),
                  'to_pixel | components differ from converting the operands')
        ctx.check(dict(pix.meta) == want_meta and dict(pix.visual) == want_visual,
                  'to_pixel | compound meta/visual not preserved',
                  f'{dict(pix.meta)} {dict(pix.visual)} vs {want_meta}')
        # ---- sky membership = op of the operands' sky membership
        q = dict(sp['query'], layout='1d', dtype='float')
        x, y = Q.materialise(rs, q)
        sc = PixCoord(x, y).to_sky(wcs)
        sa = np.asarray(sky.region1.contains(sc, wcs))
        sb = np.asarray(sky.region2.contains(sc, wcs))
        want = op(sa, sb)
        if not bool(want_meta.get('include', True)):
            want = ~want
        got = np.asarray(sky.contains(sc, wcs))
        ctx.check(np.array_equal(np.broadcast_to(got, want.shape), want),
                  'sky contains | not op(operand answers)',
                  lambda: f'{got} vs {want}')
        # ---- rotate
        pivot = PixCoord(sp['pivot'][0] + cr[0], sp['pivot'][1] + cr[1])
        th = S.angle(sp['theta'])
        rot = comp.rotate(pivot, th)
        ctx.check(isinstance(rot, CompoundPixelRegion) and rot.operator is op,
                  'rotate | class or operator not preserved')
        ctx.check(rot.region1 == a.rotate(pivot, th)
                  and rot.region2 == b.rotate(pivot, th),
                  'rotate | components differ from rotating the operands')
        ctx.check(dict(rot.meta) == want_meta and dict(rot.visual) == want_visual,
                  'rotate | compound meta/visual not preserved')
        ctx.nontrivial(W.rot_family(sp['wcs']) == 'wcsrot:generic'
                       or sp['cmeta'] is not None)


def _shift_to(rs, cr):
    """Translate a clustered spec so that it sits near CRPIX."""
    lv = G.leaves(rs)
    c0 = ref.center_of(lv[0])
    dx, dy = cr[0] - c0[0], cr[1] - c0[1]

    def walk(s):
        s = dict(s)
        if s['cls'] == 'CompoundPixelRegion':
            s['r1'], s['r2'] = walk(s['r1']), walk(s['r2'])
            return s
        for k in ('center', 'start', 'end'):
            if k in s:
                s[k] = [s[k][0] + dx, s[k][1] + dy]
        if 'vertices' in s:
            s['vertices'] = [[v + dx for v in s['vertices'][0]],
                             [v + dy for v in s['vertices'][1]]]
        return s
    return walk(rs)


class Annulus(Relation):
    name = 'C08.annulus'
    examples = {'quick': 400, 'thorough': 5000}
    shards = {'quick': 8, 'thorough': 16}

    def strategy(self, tier):
        sz = G.sizes(1e-2, 1e3)
        return st.fixed_dictionaries({
            'query': Q.query_strategy(32),
            'region': st.one_of(
                G.circle_annulus(sz), G.asym_annulus(
                    'EllipseAnnulusPixelRegion', sz),
                G.asym_annulus('RectangleAnnulusPixelRegion', sz)),
        })

    def check(self, sp, ctx):
        from regions import PixCoord
        rs = sp['region']
        cls = rs['cls']
        reg = S.build(rs)
        base = {'center': rs['center'], 'num': rs.get('num')}
        if cls == 'CircleAnnulusPixelRegion':
            inner = dict(base, cls='CirclePixelRegion', radius=rs['inner_radius'])
            outer = dict(base, cls='CirclePixelRegion', radius=rs['outer_radius'])
        else:
            c = 'EllipsePixelRegion' if cls[0] == 'E' else 'RectanglePixelRegion'
            inner = dict(base, cls=c, width=rs['inner_width'],
                         height=rs['inner_height'], angle=rs.get('angle'))
            outer = dict(base, cls=c, width=rs['outer_width'],
                         height=rs['outer_height'], angle=rs.get('angle'))
        ri, ro = S.build(inner), S.build(outer)
        q = dict(sp['query'])
        if q['layout'] == 'empty':
            q['layout'] = '1d'
        x, y = Q.materialise(rs, q)
        pc = PixCoord(x, y)
        inc = ref.include_flag(rs)
        ctx.label(cls, G.angle_family(rs), f'include:{inc}')
        want = np.asarray(ro.contains(pc)) & ~np.asarray(ri.contains(pc))
        if not inc:
            want = ~want
        got = np.asarray(reg.contains(pc))
        # points on which inner/outer are decided by rounding are excluded
        xx, yy = np.broadcast_arrays(np.asarray(x, float), np.asarray(y, float))
        _, definite = ref.membership(rs, xx, yy)
        bad = definite & (got != want)
        ctx.check(np.shape(got) == np.shape(want) and not bad.any(),
                  f'{cls} include={inc} | contains is not outer and not inner',
                  lambda: f'{int(bad.sum())} of {bad.size} points')
        ctx.check(reg.area == ro.area - ri.area,
                  f'{cls} | area is not outer area minus inner area',
                  f'{reg.area!r} vs {ro.area - ri.area!r}')
        bb = reg.bounding_box
        ctx.check(_bt(bb) == _bt(ro.bounding_box),
                  f'{cls} | box is not the outer shape\'s box')
        if bb.shape[0] * bb.shape[1] <= 200 * 200:
            m = reg.to_mask('center')
            ub = _bt(bb)
            wantm = _place(ro.to_mask('center'), ub) ^ _place(
                ri.to_mask('center'), ub)
            ctx.check(np.array_equal(np.asarray(m.data), wantm),
                      f'{cls} | centre mask is not outer xor inner')
        dv = want[definite] if np.ndim(want) else np.array([want])
        ctx.nontrivial(dv.size > 1 and bool(dv.any()) and not bool(dv.all()))


RELATIONS = [Algebra(), Commute(), Annulus()]
