"""C04 - bounding boxes enclose the region, are minimal, and confine the mask."""
import math

import numpy as np
from hypothesis import strategies as st

from vf import spec as S
from vf.gen import queries as Q
from vf.gen import regions as G
from vf.ref import geometry as ref
from vf.ref.extent import extent
from vf.runner import Relation

LEVEL = 'exploration'
RULE = ('Hypothesis draws pixel-region specs of every class (incl. point, '
        'line, text, annuli, compounds to depth 3) from two families: generic '
        '(sizes 1e-3..1e4 px, any angle/unit, near/aligned/far centres) and '
        'edge-aligned (centre and half-sizes on the 1/8-px lattice, angles '
        'multiples of 45 deg, each coordinate optionally nudged by +-ulp, '
        '+-2^-30, +-1e-9 so that an extreme lands exactly on / just below / '
        'just above a pixel edge). Oracle: the true extent in 40-digit '
        'mpmath from the stored floats; enclosure and minimality are '
        'asserted with tau = 64 eps*scale (+ eps*|theta|*size); compounds '
        'must equal the union of the operand boxes (exact integer algebra); '
        'members (reference-definite interior points) must lie inside the '
        'extent; every supported mask mode carries the same box. '
        'Non-trivial: angle not a multiple of 45 deg, or an extreme within '
        '0.01 px of a pixel edge.')
ASSUMPTIONS = [
    'degenerate boxes (a point or an axis-parallel line exactly on a pixel '
    'edge gives a zero-width box) are treated as enclosing in the '
    'closed-interval sense and are exempt from minimality',
]

NUDGES = [0.0, 0.0, 0.0, 2.0 ** -30, -2.0 ** -30, 1e-9, -1e-9, 'ulp+', 'ulp-']


def _nudge(v, n):
    if n == 'ulp+':
        return math.nextafter(v, math.inf)
    if n == 'ulp-':
        return math.nextafter(v, -math.inf)
    return v + n


def aligned_family():
    """Shapes whose extremes fall on (or one nudge away from) pixel edges."""
    lat = st.integers(-80, 80).map(lambda k: k / 8.0)
    half = st.integers(1, 80).map(lambda k: k / 8.0)     # half-size
    nud = st.sampled_from(NUDGES)
    ang = st.sampled_from([None, 0.0, 45.0, 90.0, 135.0, 180.0, 270.0, -90.0,
                           360.0, 720.0])

    def mk(t):
        kind, cx, cy, a, b, n1, n2, n3, n4, an, meta = t
        c = [_nudge(cx, n1), _nudge(cy, n2)]
        w, h = _nudge(2 * a, n3), _nudge(2 * b, n4)
        angle = None if an is None else [an, 'deg', 'Quantity']
        base = {'meta': meta, 'num': 'float'}
        if kind == 'circle':
            return dict(base, cls='CirclePixelRegion', center=c, radius=w / 2)
        if kind == 'ellipse':
            return dict(base, cls='EllipsePixelRegion', center=c, width=w,
                        height=h, angle=angle)
        if kind == 'rect':
            return dict(base, cls='RectanglePixelRegion', center=c, width=w,
                        height=h, angle=angle)
        if kind == 'cann':
            return dict(base, cls='CircleAnnulusPixelRegion', center=c,
                        inner_radius=w / 4, outer_radius=w / 2)
        if kind in ('eann', 'rann'):
            cls = ('EllipseAnnulusPixelRegion' if kind == 'eann'
                   else 'RectangleAnnulusPixelRegion')
            return dict(base, cls=cls, center=c, inner_width=w / 2,
                        outer_width=w, inner_height=h / 4, outer_height=h,
                        angle=angle)
        if kind == 'point':
            return dict(base, cls='PointPixelRegion', center=c)
        if kind == 'text':
            return dict(base, cls='TextPixelRegion', center=c, text='t')
        if kind == 'line':
            return dict(base, cls='LinePixelRegion', start=c,
                        end=[_nudge(cx + a, n3), _nudge(cy + b * (n4 != 0.0), n4)])
        if kind == 'poly':
            return dict(base, cls='PolygonPixelRegion',
                        vertices=[[c[0] - a, c[0] + a, c[0] + a / 2, c[0] - a / 4],
                                  [c[1] - b, c[1] - b / 2, c[1] + b, c[1] + b / 8]])
        raise ValueError(kind)

    return st.tuples(
        st.sampled_from(['circle', 'ellipse', 'rect', 'cann', 'eann', 'rann',
                         'point', 'text', 'line', 'poly']),
        lat, lat, half, half, nud, nud, nud, nud, ang,
        G.include_meta()).map(mk)


def _edge_dist(v):
    f = (v + 0.5) - math.floor(v + 0.5)
    return min(f, 1 - f)


def check_box(ctx, rs, reg, tag):
    """Enclosure / minimality of a leaf region; returns NT flag."""
    bb = reg.bounding_box
    xmin, xmax, ymin, ymax, tau = extent(rs)
    nt = False
    for lo, hi, imin, imax, ax in ((xmin, xmax, bb.ixmin, bb.ixmax, 'x'),
                                   (ymin, ymax, bb.iymin, bb.iymax, 'y')):
        ctx.check(isinstance(imin, int) and isinstance(imax, int),
                  f'{tag} | box corner is not a Python int',
                  f'{type(imin).__name__}')
        ctx.check(imin - 0.5 <= lo + tau,
                  f'{tag} | box does not enclose the lower {ax} extreme',
                  lambda: f'true {ax}min={float(lo)!r} box starts at pixel '
                          f'{imin} (edge {imin - 0.5})')
        ctx.check(hi - tau <= imax - 0.5,
                  f'{tag} | box does not enclose the upper {ax} extreme',
                  lambda: f'true {ax}max={float(hi)!r} box ends at pixel '
                          f'{imax - 1} (edge {imax - 0.5})')
        if imax > imin:
            ctx.check(lo < imin + 0.5 + tau,
                      f'{tag} | lowest {ax} row/column is not reached',
                      lambda: f'true {ax}min={float(lo)!r}, first pixel '
                              f'{imin} ends at {imin + 0.5}')
            ctx.check(hi > imax - 1.5 - tau,
                      f'{tag} | highest {ax} row/column is not reached',
                      lambda: f'true {ax}max={float(hi)!r}, last pixel '
                              f'{imax - 1} starts at {imax - 1.5}')
        else:
            ctx.count('degenerate_axis')
        if min(_edge_dist(float(lo)), _edge_dist(float(hi))) < 0.01:
            nt = True
    return nt, bb


def box_tuple(bb):
    return (bb.ixmin, bb.ixmax, bb.iymin, bb.iymax)


def union_ref(rs):
    """Integer union of the leaf boxes, from the library's leaf boxes (box
    algebra is C19's business) - returns a spec-level recursion."""
    if rs['cls'] != 'CompoundPixelRegion':
        return box_tuple(S.build(rs).bounding_box)
    a, b = union_ref(rs['r1']), union_ref(rs['r2'])
    return (min(a[0], b[0]), max(a[1], b[1]), min(a[2], b[2]), max(a[3], b[3]))


class Boxes(Relation):
    name = 'C04.boxes'
    examples = {'quick': 1500, 'thorough': 15000}
    shards = {'quick': 8, 'thorough': 16}

    def strategy(self, tier):
        sz = G.sizes(1e-3, 1e4)
        leaf = G.simple_pixel(sz, max_ratio=1e9)
        near = G.simple_pixel(G.sizes(0.3, 40.0), cmode='near')
        region = st.one_of(leaf, leaf, aligned_family(), aligned_family(),
                           G.grid_polygon(),
                           G.compound(st.one_of(near, aligned_family()),
                                      max_depth=3))
        return st.fixed_dictionaries({'query': Q.query_strategy(24),
                                      'region': region})

    def check(self, spec, ctx):
        from regions import PixCoord
        rs = spec['region']
        cls = rs['cls']
        reg = S.build(rs)
        ctx.label(cls, G.angle_family(rs))
        from vf.fingerprint import fp
        fp_reg = fp(reg)
        b1 = reg.bounding_box
        b2 = reg.bounding_box
        ctx.check(fp(reg) == fp_reg and box_tuple(b1) == box_tuple(b2),
                  f'{cls} | bounding_box modifies the region or is not stable')
        # a returned box is the caller's to edit (padding it in place): the
        # region's box - and the box its masks carry - stay what they were
        keep = box_tuple(b1)
        b1.ixmin, b1.ixmax = b1.ixmin - 2, b1.ixmax + 3
        b1.iymin, b1.iymax = b1.iymin - 1, b1.iymax + 4
        ctx.check(box_tuple(reg.bounding_box) == keep
                  and box_tuple(b2) == keep,
                  f'{cls} | editing a returned bounding box changes the box '
                  'the region reports next', f'{keep} -> '
                  f'{box_tuple(reg.bounding_box)}')
        if cls == 'CompoundPixelRegion':
            bb = reg.bounding_box
            want = union_ref(rs)
            ctx.check(box_tuple(bb) == want,
                      'CompoundPixelRegion | box is not the union of the '
                      'operand boxes', f'{bb} vs {want}')
            nt = False
            for leaf in G.leaves(rs):
                lnt, _ = check_box(ctx, leaf, S.build(leaf), leaf['cls'])
                nt = nt or lnt
            ctx.nontrivial(nt or G.depth(rs) >= 2)
            tag = cls
        else:
            nt, bb = check_box(ctx, rs, reg, cls)
            fam = G.angle_family(rs)
            a = rs.get('angle')
            off45 = a is not None and abs(math.remainder(
                a[0] / G.UNIT_PER_DEG[a[1]], 45.0)) > 1e-6
            ctx.nontrivial(nt or off45 or fam == 'angle:huge')
            tag = cls
        # confinement: definite members lie inside the pixel-edge extent
        q = dict(spec['query'], layout='1d', dtype='float')
        x, y = Q.materialise(rs, q)
        ins, dfn = ref.stripped_ref(rs, x, y)
        sel = ins & dfn
        if sel.any():
            ex = bb.extent
            t = 64 * ref.EPS * (np.abs(x) + np.abs(y) + 1)
            out = sel & ((x < ex[0] - t) | (x > ex[1] + t) | (y < ex[2] - t)
                         | (y > ex[3] + t))
            if out.any():
                i = int(np.argwhere(out)[0][0])
                ctx.fail(f'{tag} | a member point lies outside the box extent',
                         f'point ({x[i]!r}, {y[i]!r}) extent {ex}')
            # and the library agrees that they are members
            lib = np.asarray(S.build(_strip(rs)).contains(PixCoord(x, y)))
            ctx.count('member_points', int(sel.sum()))
            if (sel & ~lib).any():
                ctx.count('reference_member_not_library_member',
                          int((sel & ~lib).sum()))
        # the mask carries the same box, in every supported mode
        ny, nx = bb.shape
        if ny * nx <= 64 * 64:
            for mode, n in (('center', 1), ('subpixels', 3), ('exact', 1)):
                try:
                    m = reg.to_mask(mode, n)
                except NotImplementedError:
                    continue
                ctx.check(box_tuple(m.bbox) == box_tuple(bb)
                          and m.data.shape == (ny, nx),
                          f'{tag} mode={mode} | mask box differs from '
                          'bounding_box', f'{m.bbox} vs {bb}')
                ctx.count('mask_boxes_compared')


def _strip(rs):
    sp = dict(rs)
    if sp['cls'] == 'CompoundPixelRegion':
        sp['r1'], sp['r2'] = _strip(sp['r1']), _strip(sp['r2'])
        sp['meta'] = {}
        return sp
    sp['meta'] = {k: v for k, v in (sp.get('meta') or {}).items()
                  if k != 'include'}
    return sp


RELATIONS = [Boxes()]
