"""C14 - file writing never clobbers or half-writes, and files read back as
written (fault enumeration)."""
import gzip
import os
import shutil
import tempfile
import warnings

import numpy as np
from hypothesis import strategies as st

from vf import spec as S
from vf.gen import regions as G
from vf.runner import HERE, Relation, classify_exception

LEVEL = 'fault_enumeration'
RULE = ('For every Hypothesis-generated region list (1-6 pixel regions that all '
        'three formats can express) the matrix format {ds9, crtf, fits} x '
        'destination state {absent, regular file with sentinel bytes, symlink '
        'to such a file, dangling symlink} x overwrite {False, True} x fault '
        '{none, an unserialisable region injected at EACH list position, a '
        'compound / format-inexpressible member, each invalid option of the '
        'format} is enumerated completely; entry point (Region.write / '
        'Regions.write), explicit format vs each registered write extension '
        'are cycled over the cells. Oracle: refused write -> OSError and the '
        'destination (bytes, file type, link target) identical; failed write '
        '-> destination exactly as before (absent stays absent, also with '
        'overwrite=True) and no stray files; successful write -> reading back '
        '(format given, inferred from every registered read extension, from '
        'the content of a renamed copy and of a gzip copy) equals parsing the '
        'serialised text/table. Non-trivial cell: the failing element is not '
        'the first, or the destination pre-exists, or the format is inferred '
        'from content.')
ASSUMPTIONS = [
    'OS-level faults during the final write() (ENOSPC, EIO) are not injected: '
    'the property lists serialisation failures and bad options; the writers '
    'are plain open(...).write(...)',
    'a dangling symbolic link counts as a path that exists (the quantifier '
    'names it as a destination state; "in every format"): without '
    'overwrite=True it must be refused with OSError, link untouched',
    'a list that serialises to the empty string (no region, or only skipped '
    'members, as DS9 / CRTF text) is read back with the format given or '
    'inferred from the extension only: an empty text has no content signature',
    'when a destination exists AND a fault is injected any exception type is '
    'accepted (which check fires first is not specified)',
]
SENTINEL = b'SENTINEL-do-not-touch\n\x00\x01' * 7
WRITE_EXT = {'ds9': ['.ds9', '.reg'], 'crtf': ['.crtf'],
             'fits': ['.fits', '.fit', '.fts']}
READ_EXT = {'ds9': ['.ds9', '.reg'], 'crtf': ['.crtf'],
            'fits': ['.fits', '.fit', '.fts']}
BAD_OPTIONS = {'ds9': [{'precision': 'x'}, {'precision': -3}, {'nonsense': 1}],
               'crtf': [{'coordsys': 'nonsense'}, {'radunit': 'arcsec'},
                        {'fmt': 'zz'}, {'nonsense': 1}],
               # '@unverifiable': a Header object that constructs but fails
               # FITS verification - the write fails LATE, inside writeto
               'fits': [{'header': 'not-a-header'}, {'nonsense': 1},
                        {'header': '@unverifiable'}]}
# ('empty': an existing regular file of 0 bytes - it exists)
DEST = ['absent', 'file', 'symlink', 'dangling', 'empty']


def _scratch():
    d = os.path.join(HERE, '.scratch')
    os.makedirs(d, exist_ok=True)
    return d


def region_list():
    sz = G.sizes(0.5, 200)
    reg = st.one_of(G.circle(sz, 'near', False), G.ellipse(sz, 'near', False),
                    G.rectangle(sz, 'near', False),
                    G.circle_annulus(sz, 'near', False))
    meta = st.sampled_from([{}, {'include': False}, {'text': 'lbl'},
                            {'include': 0, 'text': 'a b'},
                            # characters outside ASCII (a write must not fail
                            # half-way because of what a label says)
                            {'text': 'Sgr A\u2605 caf\u00e9',
                             'label': 'caf\u00e9 \u2605'}])
    return st.lists(st.tuples(reg, meta).map(
        lambda t: dict(t[0], meta=t[1])), min_size=1, max_size=6)


def poison(region):
    """An unserialisable region: every format reads `radius`/`width`."""
    cls = type(region)

    def boom(self):
        raise RuntimeError('injected serialisation fault')
    attr = 'radius' if hasattr(region, 'radius') else (
        'width' if hasattr(region, 'width') else 'outer_radius')
    region.__class__ = type(cls.__name__, (cls,), {attr: property(boom)})
    return region


def snapshot(path):
    """(kind, link target, bytes) of a destination."""
    if os.path.islink(path):
        tgt = os.readlink(path)
        data = None
        if os.path.exists(path):
            with open(path, 'rb') as fh:
                data = fh.read()
        return ('symlink', tgt, data)
    if os.path.exists(path):
        with open(path, 'rb') as fh:
            return ('file', None, fh.read())
    return ('absent', None, None)


def same_regions(a, b):
    return len(a) == len(b) and all(x == y for x, y in zip(a, b))


class Matrix(Relation):
    name = 'C14.matrix'
    examples = {'quick': 8, 'thorough': 120}
    shards = {'quick': 8, 'thorough': 16}
    budget_s = {'quick': 200, 'thorough': 2400}

    def strategy(self, tier):
        return st.fixed_dictionaries({'regions': region_list(),
                                      'rot': st.integers(0, 11)})

    def check(self, sp, ctx):
        from regions import Regions
        specs = sp['regions']
        n = len(specs)
        cell_no = sp['rot']
        n_cells = n_nt = 0
        base = tempfile.mkdtemp(prefix='c14-', dir=_scratch())
        try:
            # a prelude: each writer used once with unusual but valid options
            # (a FITS header of the caller's own, a coarse DS9 precision, CRTF
            # in radians) - what one write was told must not show in the next
            self._prelude(base, specs)
            for fmt in ('ds9', 'crtf', 'fits'):
                faults = [('none', None)]
                faults += [('poison', k) for k in range(n)]
                faults += [('compound', n // 2), ('inexpressible', n - 1)]
                faults += [('option', o) for o in BAD_OPTIONS[fmt]]
                # a format name nobody registered / a path whose extension
                # identifies no format and no format given
                faults += [('badformat', None), ('noext', None)]
                # lists that serialise to NOTHING: no region at all, or only
                # members the format skips with a warning - still a write
                faults += [('nothing', 'empty'), ('nothing', 'skipped')]
                for dest in DEST:
                    for overwrite in (False, True):
                        for fault in faults:
                            cell_no += 1
                            nt = self.cell(ctx, base, specs, fmt, dest,
                                           overwrite, fault, cell_no)
                            n_cells += 1
                            n_nt += bool(nt)
        finally:
            shutil.rmtree(base, ignore_errors=True)
        ctx.add_enumerated(n_cells, n_nt, {
            'regions': specs, 'example_cell': ['crtf', 'symlink', True,
                                               ['poison', n - 1]]})
        ctx.evaluations -= 1

    # ------------------------------------------------------------------
    @staticmethod
    def _prelude(base, specs):
        from astropy.io import fits
        from regions import Regions
        regs = Regions([S.build(r) for r in specs])
        hdr = fits.Header()
        hdr['EXTNAME'] = 'EVENTS'
        hdr['HDUCLAS1'] = 'OTHER'
        hdr['OBSERVER'] = 'prelude'
        for name, kw in (('p.fits', {'header': hdr}),
                         ('p.reg', {'precision': 2}),
                         ('p.crtf', {'coordsys': 'image', 'fmt': '.2f',
                                     'radunit': 'rad'})):
            try:
                with warnings.catch_warnings():
                    warnings.simplefilter('ignore')
                    regs.write(os.path.join(base, name), overwrite=True, **kw)
            except Exception:   # noqa: BLE001 - the prelude is not judged
                pass

    def cell(self, ctx, base, specs, fmt, dest, overwrite, fault, cell_no):
        import regions as R
        from regions import Regions
        d = tempfile.mkdtemp(prefix='cell-', dir=base)
        exts = WRITE_EXT[fmt]
        explicit = cell_no % (len(exts) + 1) == 0
        ext = exts[cell_no % len(exts)]
        path = os.path.join(d, 'out' + ext)
        target = os.path.join(d, 'target.bin')
        cell = {'kind': 'cell', 'regions': specs, 'format': fmt, 'dest': dest,
                'overwrite': overwrite, 'fault': list(fault),
                'cell_no': cell_no}
        tag = f'{fmt} dest={dest} overwrite={overwrite} fault={fault[0]}'
        if dest == 'file':
            with open(path, 'wb') as fh:
                fh.write(SENTINEL)
        elif dest == 'empty':
            open(path, 'wb').close()
        elif dest == 'symlink':
            with open(target, 'wb') as fh:
                fh.write(SENTINEL)
            os.symlink(target, path)
        elif dest == 'dangling':
            os.symlink(os.path.join(d, 'nowhere.bin'), path)
        regs = [S.build(r) for r in specs]
        kw = {}
        kind, arg = fault
        if kind == 'poison':
            regs[arg] = poison(regs[arg])
        elif kind == 'compound':
            regs.insert(arg, regs[0] & regs[-1])
        elif kind == 'inexpressible':
            regs.insert(arg + 1, R.RectangleAnnulusPixelRegion(
                R.PixCoord(3, 4), 2, 5, 1, 4))
        elif kind == 'nothing':
            regs = [] if arg == 'empty' else [regs[0] & regs[-1]]
        elif kind == 'badformat':
            explicit = True
        elif kind == 'noext':
            explicit = False
            newpath = os.path.join(d, 'out.dat')
            if os.path.lexists(path):
                os.rename(path, newpath)
            path = newpath
        elif kind == 'option':
            kw = dict(arg)
            if kw.get('header') == '@unverifiable':
                from astropy.io import fits
                kw['header'] = fits.Header.fromstring(
                    "EXTNAME = 'REGION'".ljust(80)
                    + 'FOO     = 1.0 E5'.ljust(80))
        if fmt == 'crtf' and 'coordsys' not in kw:
            kw['coordsys'] = 'image'
        single = cell_no % 3 == 0 and len(regs) == 1
        before = snapshot(path)
        listing_before = sorted(os.listdir(d))
        args = {} if not explicit else {'format': fmt}
        if kind == 'badformat':
            args = {'format': 'nonsense'}
        err = None
        try:
            with warnings.catch_warnings():
                warnings.simplefilter('ignore')
                if single:
                    regs[0].write(path, overwrite=overwrite, **args, **kw)
                else:
                    Regions(regs).write(path, overwrite=overwrite, **args, **kw)
        except Exception as e:   # noqa: BLE001
            err = e
        after = snapshot(path)
        listing_after = sorted(os.listdir(d))
        # does this fault make serialisation itself fail for this format?
        # (a dangling symbolic link is a path that exists: it is refused
        # like the others, in every format)
        exists = dest != 'absent'
        must_refuse = exists and not overwrite
        if must_refuse:
            ctx.check(err is not None, f'{tag} | existing destination '
                      'overwritten without overwrite=True', spec=cell)
            if kind == 'none':
                ctx.check(isinstance(err, OSError),
                          f'{tag} | refusal is not an OSError',
                          f'{type(err).__name__}: {err}', spec=cell)
            ctx.check(after == before and listing_after == listing_before,
                      f'{tag} | refused write changed the destination',
                      f'{before[:2]} -> {after[:2]}; files {listing_after}',
                      spec=cell)
        elif err is not None:
            ctx.check(after == before and listing_after == listing_before,
                      f'{tag} | failed write ({type(err).__name__}) left the '
                      'destination changed or stray files behind',
                      f'{before[:2]} -> {after[:2]}; files {listing_before} '
                      f'-> {listing_after}; error {str(err)[:120]}', spec=cell)
            if kind == 'none':
                ctx.fail(f'{tag} | valid write fails',
                         f'{classify_exception(err)}: {str(err)[:200]}',
                         spec=cell)
        else:
            # success: the destination now holds the regions
            if kind in ('poison', 'option', 'badformat', 'noext'):
                # a write that was given a fault but succeeded: the fault was
                # not one for this format (e.g. unknown kwargs must raise)
                ctx.fail(f'{tag} | write succeeds although {fault!r} was '
                         'injected', spec=cell)
            ctx.check(os.path.exists(path), f'{tag} | nothing written',
                      spec=cell)
            if dest in ('symlink', 'dangling'):
                pass
            self.read_back(ctx, d, path, fmt, regs, kw, tag, cell)
        shutil.rmtree(d, ignore_errors=True)
        return (kind in ('poison', 'compound', 'inexpressible')
                and (arg or 0) > 0) or dest != 'absent'

    def read_back(self, ctx, d, path, fmt, regs, kw, tag, cell):
        from regions import Regions
        ser_kw = {k: v for k, v in kw.items()}
        with warnings.catch_warnings():
            warnings.simplefilter('ignore')
            data = Regions(regs).serialize(format=fmt, **ser_kw)
            want_err = None
            try:
                want = Regions.parse(data, format=fmt)
            except Exception as e:   # noqa: BLE001
                want, want_err = None, type(e)

            def attempt(p, **a):
                try:
                    return Regions.read(p, **a), None
                except Exception as e:   # noqa: BLE001
                    return None, type(e)

            variants = [('format given', path, {'format': fmt})]
            real = os.path.realpath(path)
            for ext in READ_EXT[fmt]:
                p2 = os.path.join(d, 'copy' + ext)
                shutil.copyfile(real, p2)
                variants.append((f'extension {ext}', p2, {}))
                gz = p2 + '.gz'
                with open(p2, 'rb') as fi, gzip.open(gz, 'wb') as fo:
                    fo.write(fi.read())
                variants.append((f'extension {ext}.gz', gz, {}))
            neutral = os.path.join(d, 'renamed.dat')
            shutil.copyfile(real, neutral)
            variants.append(('content signature', neutral, {}))
            ngz = os.path.join(d, 'renamed2.dat')
            with open(real, 'rb') as fi, gzip.open(ngz, 'wb') as fo:
                fo.write(fi.read())
            variants.append(('content signature of a gzip copy', ngz, {}))
            # the same neutral path holds, cell after cell, files of all
            # three formats (plain and gzip): what a read infers must follow
            # the current content, not an earlier one
            for nm, src in (('reused.dat', neutral), ('reused.bin', ngz)):
                reused = os.path.join(os.path.dirname(d), nm)
                shutil.copyfile(src, reused)
                variants.append(('content signature at a path that held '
                                 'other files before', reused, {}))
            # what identifies as nothing is refused, not guessed at
            junk = os.path.join(d, 'junk.dat')
            with open(junk, 'wb') as fh:
                fh.write(SENTINEL)
            for name, p, a in (('unrelated content, no format', junk, {}),
                               ('unknown format name', path,
                                {'format': 'nonsense'})):
                got, got_err = attempt(p, **a)
                ctx.check(got_err is not None,
                          f'read ({name}) | returns regions instead of '
                          'raising', f'{got!r}'[:200], spec=cell)
            nothing = isinstance(data, str) and not data.strip()
            for name, p, a in variants:
                if nothing and 'content signature' in name:
                    # an empty text has no signature to be recognised by
                    ctx.count('empty_text_has_no_signature')
                    continue
                got, got_err = attempt(p, **a)
                if want_err is not None:
                    ctx.check(got_err is want_err,
                              f'{fmt} read-back ({name}) | differs from '
                              'parsing the serialised data',
                              f'parse raises {want_err.__name__}, read gives '
                              f'{got_err}', spec=cell)
                else:
                    ctx.check(got_err is None and same_regions(got, want),
                              f'{fmt} read-back ({name}) | differs from '
                              'parsing the serialised data',
                              f'{got_err.__name__ if got_err else "regions differ"}',
                              spec=cell)
                ctx.count('readbacks')


class ReplayCell(Matrix):
    """Single cells (used by replay files)."""

    def check(self, sp, ctx):
        if sp.get('kind') != 'cell':
            return Matrix.check(self, sp, ctx)
        base = tempfile.mkdtemp(prefix='c14-', dir=_scratch())
        try:
            self.cell(ctx, base, sp['regions'], sp['format'], sp['dest'],
                      sp['overwrite'], tuple(sp['fault']), sp['cell_no'])
        finally:
            shutil.rmtree(base, ignore_errors=True)
        ctx.nontrivial(True)


RELATIONS = [ReplayCell()]
