"""C18 - the matplotlib artist of a region depicts the region."""
import math

import numpy as np
from hypothesis import strategies as st

from vf import spec as S
from vf.gen import queries as Q
from vf.gen import regions as G
from vf.ref import geometry as ref
from vf.runner import Relation

LEVEL = 'exploration'
RULE = ('C18.patch: Hypothesis draws circle / ellipse / rectangle / simple '
        '(convex or star-shaped) polygon / regular polygon / the three annuli '
        'with any angle and a plot origin; the patch path is taken to data '
        'space (get_patch_transform), flattened by our own Bezier sampling '
        '(64 points per curve) and tested with the non-zero winding rule over '
        'all sub-paths against region.contains at points whose margin exceeds '
        '0.5 % of the size; annuli must consist of two sub-paths of opposite '
        'orientation. C18.markers: point / text / line artists sit at the '
        'region positions minus the origin. C18.kwargs: every caller keyword '
        '(canonical names) wins over the stored visual, for mpl-style and '
        'DS9-derived visuals; the bounding-box artist is its extent. '
        'Non-trivial: angle not a multiple of 90 deg, origin != (0, 0), width '
        '!= height (patches); an overridden key that is also in the visual.')
ASSUMPTIONS = [
    'polygons are simple in this property: for a self-intersecting outline '
    '"inside the path" depends on the fill rule, which the statement does not '
    'settle',
    'matplotlib\'s own Path.contains_points is NOT used (it ORs sub-paths and '
    'ignores holes)',
]


def data_path(p):
    if type(p).__name__ == 'PathPatch':
        return p.get_path()
    return p.get_patch_transform().transform_path(p.get_path())


def flatten(path, nseg=64):
    from matplotlib.path import Path
    polys, cur = [], []
    verts = path.vertices
    codes = path.codes if path.codes is not None else \
        [Path.MOVETO] + [Path.LINETO] * (len(verts) - 1)
    i, n = 0, len(verts)
    while i < n:
        c = codes[i]
        if c == Path.MOVETO:
            if len(cur) > 1:
                polys.append(np.array(cur))
            cur = [verts[i]]
            i += 1
        elif c == Path.LINETO:
            cur.append(verts[i])
            i += 1
        elif c == Path.CURVE3:
            p0, p1, p2 = cur[-1], verts[i], verts[i + 1]
            t = np.linspace(0, 1, nseg + 1)[1:, None]
            cur.extend((1 - t) ** 2 * p0 + 2 * (1 - t) * t * p1 + t ** 2 * p2)
            i += 2
        elif c == Path.CURVE4:
            p0, p1, p2, p3 = cur[-1], verts[i], verts[i + 1], verts[i + 2]
            t = np.linspace(0, 1, nseg + 1)[1:, None]
            cur.extend((1 - t) ** 3 * p0 + 3 * (1 - t) ** 2 * t * p1
                       + 3 * (1 - t) * t ** 2 * p2 + t ** 3 * p3)
            i += 3
        elif c == Path.CLOSEPOLY:
            if len(cur) > 1:
                polys.append(np.array(cur))
            cur = []
            i += 1
        else:
            i += 1
    if len(cur) > 1:
        polys.append(np.array(cur))
    return polys


def winding(polys, x, y):
    w = np.zeros(x.shape, int)
    for P in polys:
        Qp = np.vstack([P, P[:1]])
        for (x0, y0), (x1, y1) in zip(Qp[:-1], Qp[1:]):
            up = (y0 <= y) & (y1 > y)
            dn = (y0 > y) & (y1 <= y)
            isleft = (x1 - x0) * (y - y0) - (x - x0) * (y1 - y0)
            w += (up & (isleft > 0)).astype(int)
            w -= (dn & (isleft < 0)).astype(int)
    return w


def signed_area(P):
    # (referred to the first vertex: the shoelace sum of absolute coordinates
    # cancels catastrophically far from the origin)
    P = np.asarray(P, float) - np.asarray(P[0], float)
    Qp = np.vstack([P, P[:1]])
    return 0.5 * float(np.sum(Qp[:-1, 0] * Qp[1:, 1] - Qp[1:, 0] * Qp[:-1, 1]))


def _strip(rs):
    rs = dict(rs)
    rs['meta'] = {}
    return rs


class Patch(Relation):
    name = 'C18.patch'
    examples = {'quick': 300, 'thorough': 4000}
    shards = {'quick': 8, 'thorough': 16}

    def strategy(self, tier):
        sz = G.sizes(1e-2, 1e3)
        c = 'near'
        region = st.one_of(
            G.circle(sz, c), G.ellipse(sz, c, max_ratio=30),
            G.rectangle(sz, c, max_ratio=30),
            # ... and anywhere (centres to 1e6 px from the plot origin)
            G.circle(sz, 'any'), G.ellipse(sz, 'any', max_ratio=30),
            G.rectangle(sz, 'any', max_ratio=30),
            G.regular_polygon(sz, 'any'),
            G.polygon(sz, c, simple_only=True), G.int_polygon(),
            G.regular_polygon(sz, c),
            G.circle_annulus(sz, c),
            G.asym_annulus('EllipseAnnulusPixelRegion', sz, c, max_ratio=30),
            G.asym_annulus('RectangleAnnulusPixelRegion', sz, c, max_ratio=30))
        o = st.one_of(st.just(0.0), st.floats(-50, 50), st.integers(-5, 5).map(
            float))
        return st.fixed_dictionaries({
            'origin': st.tuples(o, o),
            'query': Q.query_strategy(32),
            'region': region,
        })

    def check(self, sp, ctx):
        import matplotlib.patches as mpatches
        from regions import PixCoord
        rs = sp['region']
        cls = rs['cls']
        reg = S.build(rs)
        ox, oy = sp['origin']
        from vf.fingerprint import fp
        fp_reg = fp(reg)
        patch = reg.as_artist(origin=(ox, oy))
        ctx.check(fp(reg) == fp_reg, f'{cls} | as_artist modifies the region')
        ctx.label(cls, G.angle_family(rs), 'origin:' + (
            'zero' if (ox, oy) == (0.0, 0.0) else 'shifted'))
        ctx.check(isinstance(patch, mpatches.Patch),
                  f'{cls} | artist is not a matplotlib patch',
                  type(patch).__name__)
        polys = flatten(data_path(patch))
        q = dict(sp['query'], layout='1d', dtype='float', dense=True)
        x, y = Q.materialise(rs, q)
        # keep points well away from the outline (Bezier error 3e-4, plus a
        # margin of 0.5 % of the local size)
        _, size = _scale(rs)
        inside_ref, definite = ref.stripped_ref(rs, x, y, pos_err=0.005 * size)
        if cls in ('PolygonPixelRegion', 'RegularPolygonPixelRegion'):
            pass
        lib = np.asarray(S.build(_strip(rs)).contains(PixCoord(x, y)))
        wnum = winding(polys, x - ox, y - oy)
        in_path = wnum != 0
        sel = definite & (lib == inside_ref)
        bad = sel & (in_path != lib)
        ctx.count('points', int(sel.sum()))
        if bad.any():
            i = int(np.argwhere(bad)[0][0])
            ctx.fail(f'{cls} | patch outline does not match the region',
                     f'point ({x[i]!r}, {y[i]!r}) origin {(ox, oy)}: in path '
                     f'{bool(in_path[i])}, region contains {bool(lib[i])}; '
                     f'{int(bad.sum())} of {int(sel.sum())} points')
        if cls == 'RegularPolygonPixelRegion':
            # the same object after an edit of its defining parameters:
            # whatever point set the region NOW answers for, the patch must
            # outline that same set (judged at positions that are clear of
            # both the old and the new outline)
            import astropy.units as u
            reg2 = S.build(_strip(rs))
            reg2.contains(PixCoord(x, y))
            reg2.as_artist(origin=(ox, oy))
            rs2 = dict(_strip(rs))
            k = int(float(rs['radius']) * 1000) % 3
            if k == 0:
                rs2['radius'] = float(rs['radius']) * 1.5
                reg2.radius = rs2['radius']
            elif k == 1:
                a0 = reg2.angle.to_value(u.deg)
                rs2['angle'] = [a0 + 25.0, 'deg', 'Quantity']
                reg2.angle = (a0 + 25.0) * u.deg
            else:
                rs2['center'] = [rs['center'][0] + 0.4 * size,
                                 rs['center'][1] - 0.3 * size]
                reg2.center = PixCoord(*rs2['center'])
            ctx.label('regpoly-edited:' + ('radius', 'angle', 'center')[k])
            lib2 = np.asarray(reg2.contains(PixCoord(x, y)))
            polys2 = flatten(data_path(reg2.as_artist(origin=(ox, oy))))
            in2 = winding(polys2, x - ox, y - oy) != 0
            _, clear_new = ref.stripped_ref(rs2, x, y, pos_err=0.005 * size)
            sel2 = definite & clear_new
            bad2 = sel2 & (in2 != lib2)
            if bad2.any():
                i = int(np.argwhere(bad2)[0][0])
                ctx.fail(f'{cls} | after an edit of {("radius", "angle", "center")[k]} '
                         'the patch does not outline what the region contains',
                         f'point ({x[i]!r}, {y[i]!r}): in path {bool(in2[i])}, '
                         f'region contains {bool(lib2[i])}; '
                         f'{int(bad2.sum())} of {int(sel2.sum())} points')
        if 'Annulus' in cls:
            areas = [signed_area(P) for P in polys]
            ctx.check(len(polys) == 2 and areas[0] * areas[1] < 0,
                      f'{cls} | annulus patch is not an outer outline plus an '
                      'oppositely oriented inner outline',
                      f'{len(polys)} sub-paths, signed areas {areas}')
            ctx.check(abs(areas[0]) != abs(areas[1]),
                      f'{cls} | inner and outer outlines coincide')
            # the same annulus far from the origin of the plot (centre -
            # origin of 1e5 ... 1e9 pixels): still a hole
            far = 10.0 ** (5 + int(abs(ox) * 7 + abs(oy) * 3 + size) % 5)
            rs_far = dict(_strip(rs), center=[rs['center'][0] + far,
                                              rs['center'][1] - 0.5 * far],
                          build='direct')
            pf = flatten(data_path(S.build(rs_far).as_artist(origin=(ox, oy))))
            af = [signed_area(P) for P in pf]
            ctx.check(len(pf) == 2 and af[0] * af[1] < 0
                      and abs(af[0]) != abs(af[1]),
                      f'{cls} | far from the plot origin the annulus patch '
                      'is not an outer outline plus an oppositely oriented '
                      'inner outline',
                      f'centre - origin ~ {far:.0e}: {len(pf)} sub-paths, '
                      f'signed areas {af}')
        else:
            ctx.check(len(polys) == 1, f'{cls} | patch has {len(polys)} '
                      'sub-paths')
        a = rs.get('angle')
        rot_ok = cls in ('CirclePixelRegion', 'CircleAnnulusPixelRegion',
                         'PolygonPixelRegion') or \
            G.angle_family(rs) not in ('angle:mult90', 'angle:none')
        dv = lib[sel]
        ctx.nontrivial(rot_ok and (ox, oy) != (0.0, 0.0) and dv.size > 0
                       and dv.any() and not dv.all())


def _scale(rs):
    from vf.props.c15 import _scale as sc
    return sc(rs)


class Markers(Relation):
    name = 'C18.markers'
    examples = {'quick': 300, 'thorough': 3000}
    shards = {'quick': 4, 'thorough': 8}

    def strategy(self, tier):
        o = st.one_of(st.just(0.0), st.floats(-50, 50))
        return st.fixed_dictionaries({
            'origin': st.tuples(o, o),
            'region': st.one_of(G.point(), G.line(), G.text()),
            'box': st.tuples(st.integers(-50, 50), st.integers(0, 30),
                             st.integers(-50, 50), st.integers(0, 30)),
        })

    def check(self, sp, ctx):
        import matplotlib.lines as mlines
        import matplotlib.patches as mpatches
        import matplotlib.text as mtext
        from regions import RegionBoundingBox
        rs = sp['region']
        cls = rs['cls']
        reg = S.build(rs)
        ox, oy = sp['origin']
        art = reg.as_artist(origin=(ox, oy))
        ctx.label(cls)

        def close(a, b):
            return abs(a - b) <= 1e-9 * max(1.0, abs(a), abs(b))
        if cls == 'PointPixelRegion':
            ctx.check(isinstance(art, mlines.Line2D), 'point | not a Line2D')
            xy = np.asarray(art.get_xydata(), float)
            ctx.check(xy.shape == (1, 2) and close(xy[0, 0], reg.center.x - ox)
                      and close(xy[0, 1], reg.center.y - oy),
                      'point | marker is not at centre minus origin',
                      f'{xy} vs {(reg.center.x - ox, reg.center.y - oy)}')
        elif cls == 'TextPixelRegion':
            ctx.check(isinstance(art, mtext.Text), 'text | not a Text artist')
            px, py = art.get_position()
            ctx.check(close(px, reg.center.x - ox) and close(py, reg.center.y - oy),
                      'text | not at centre minus origin',
                      f'{(px, py)} vs {(reg.center.x - ox, reg.center.y - oy)}')
            ctx.check(art.get_text() == rs['text'], 'text | string differs')
        else:
            ctx.check(isinstance(art, mpatches.Patch), 'line | not a patch')
            if (reg.start.x, reg.start.y) != (reg.end.x, reg.end.y):
                ends = art.get_patch_transform().transform([(0.0, 0.0),
                                                            (1.0, 0.0)])
                ctx.check(close(ends[0][0], reg.start.x - ox)
                          and close(ends[0][1], reg.start.y - oy)
                          and close(ends[1][0], reg.end.x - ox)
                          and close(ends[1][1], reg.end.y - oy),
                          'line | arrow does not run from start to end '
                          '(minus origin)',
                          f'{ends.tolist()} vs start '
                          f'{(reg.start.x - ox, reg.start.y - oy)} end '
                          f'{(reg.end.x - ox, reg.end.y - oy)}')
        # bounding-box artist
        x0, w, y0, h = sp['box']
        bb = RegionBoundingBox(x0, x0 + w, y0, y0 + h)
        r = bb.as_artist()
        ex = bb.extent
        ctx.check((r.get_x(), r.get_x() + r.get_width(), r.get_y(),
                   r.get_y() + r.get_height()) == tuple(ex),
                  'bbox | rectangle artist is not the extent',
                  f'{(r.get_x(), r.get_width(), r.get_y(), r.get_height())} vs {ex}')
        ctx.nontrivial((ox, oy) != (0.0, 0.0))


PATCH_KW = [('edgecolor', 'magenta'), ('facecolor', 'yellow'),
            ('linewidth', 3.5), ('fill', True), ('linestyle', '--'),
            ('alpha', 0.25), ('label', 'my label'), ('zorder', 7),
            # matplotlib's shorthand spellings (reg.plot(ax=ax, lw=2, ...))
            ('lw', 4.5), ('ec', 'orange'), ('fc', 'cyan'), ('ls', ':'),
            # matplotlib's 'color' sets edge AND face colour of a patch
            ('color', 'purple')]
ALIASES = {'lw': 'linewidth', 'ec': 'edgecolor', 'fc': 'facecolor',
           'ls': 'linestyle', 'ms': 'markersize', 'mec': 'markeredgecolor',
           'mew': 'markeredgewidth'}
LINE_KW = [('marker', 's'), ('markersize', 13.0), ('markeredgecolor', 'magenta'),
           ('markeredgewidth', 2.5), ('fillstyle', 'full'), ('alpha', 0.5),
           ('label', 'pt'), ('ms', 17.0), ('mec', 'orange'), ('mew', 1.5)]
TEXT_KW = [('color', 'magenta'), ('size', 21.0), ('rotation', 33.0),
           ('ha', 'left'), ('alpha', 0.5), ('family', 'serif')]
FONT = {'fontname': 'helvetica', 'fontsize': 10, 'fontweight': 'normal',
        'fontstyle': 'normal'}
# mpl-style dictionaries a user would write for that artist kind, and the
# dictionaries the DS9 reader produces for it (default_style='ds9')
VISUALS = {
    'Patch': [{}, {'color': 'red'}, {'color': 'blue', 'linewidth': 1.5},
              {'edgecolor': 'cyan', 'facecolor': 'black', 'fill': True},
              {'linestyle': ':', 'linewidth': 4},
              dict(FONT, linewidth=3, default_style='ds9', fill=True,
                   linestyle=(0, (8, 3)), facecolor='red', edgecolor='red'),
              dict(FONT, linewidth=1, default_style='ds9', facecolor='green',
                   edgecolor='green'),
              {'default_style': 'ds9'}],
    'Arrow': [{}, {'color': 'red'}, {'color': 'blue', 'linewidth': 1.5},
              dict(FONT, color='pink', linewidth=1, default_style='ds9',
                   linestyle=(0, (4, 2))),
              {'default_style': 'ds9'}],
    'Line2D': [{}, {'color': 'red'}, {'marker': '+', 'markersize': 4},
               dict(FONT, color='blue', default_style='ds9', markersize=14,
                    marker='x', markeredgewidth=1),
               {'default_style': 'ds9'}],
    'Text': [{}, {'color': 'orange', 'fontsize': 9},
             {'fontsize': 14, 'fontweight': 'bold', 'textangle': 10},
             dict(FONT, color='cyan', linewidth=1, default_style='ds9',
                  rotation=30),
             {'default_style': 'ds9'}],
}


class Kwargs(Relation):
    name = 'C18.kwargs'
    examples = {'quick': 300, 'thorough': 3000}
    shards = {'quick': 4, 'thorough': 8}

    def strategy(self, tier):
        sz = G.sizes(0.5, 50)
        region = st.one_of(G.circle(sz, 'near', meta=False),
                           G.ellipse(sz, 'near', meta=False),
                           G.rectangle(sz, 'near', meta=False),
                           G.polygon(sz, 'near', meta=False),
                           G.circle_annulus(sz, 'near', meta=False),
                           G.asym_annulus('EllipseAnnulusPixelRegion', sz,
                                          'near', meta=False),
                           G.point('near', meta=False),
                           G.line('near', meta=False),
                           G.text('near', meta=False))
        return st.fixed_dictionaries({
            'visual': st.integers(0, 7),
            'kw': st.lists(st.integers(0, 12), min_size=0, max_size=3,
                           unique=True),
            'region': region,
        })

    def check(self, sp, ctx):
        import matplotlib.colors as mcolors
        rs = dict(sp['region'])
        cls = rs['cls']
        if cls in ('PointPixelRegion',):
            pool, kind, vk = LINE_KW, 'Line2D', 'Line2D'
        elif cls == 'TextPixelRegion':
            pool, kind, vk = TEXT_KW, 'Text', 'Text'
        elif cls == 'LinePixelRegion':
            pool, kind, vk = PATCH_KW, 'Patch', 'Arrow'
        else:
            pool, kind, vk = PATCH_KW, 'Patch', 'Patch'
        rs['visual'] = dict(VISUALS[vk][sp['visual'] % len(VISUALS[vk])])
        reg = S.build(rs)
        kw = dict(pool[i % len(pool)] for i in sp['kw'])
        # (never a shorthand together with the name it stands for)
        kw = {k: v for k, v in kw.items()
              if not (k in ALIASES and ALIASES[k] in kw)}
        if kind == 'Patch' and 'color' in kw:
            # 'color' together with an explicit edge / face colour keyword is
            # matplotlib's own business: keep 'color' alone
            kw = {k: v for k, v in kw.items()
                  if k not in ('edgecolor', 'facecolor', 'ec', 'fc')}
        art = reg.as_artist(**kw)
        ctx.label(cls, 'style:' + str(rs['visual'].get('default_style', 'mpl')))

        def rgba(c):
            return tuple(round(v, 6) for v in mcolors.to_rgba(c))
        getters = {
            'edgecolor': lambda a: rgba(a.get_edgecolor()),
            'facecolor': lambda a: rgba(a.get_facecolor()),
            'linewidth': lambda a: a.get_linewidth(),
            'fill': lambda a: a.get_fill(),
            'linestyle': lambda a: a.get_linestyle(),
            'alpha': lambda a: a.get_alpha(),
            'label': lambda a: a.get_label(),
            'zorder': lambda a: a.get_zorder(),
            'marker': lambda a: a.get_marker(),
            'markersize': lambda a: a.get_markersize(),
            'markeredgecolor': lambda a: rgba(a.get_markeredgecolor()),
            'markeredgewidth': lambda a: a.get_markeredgewidth(),
            'fillstyle': lambda a: a.get_fillstyle(),
            'color': lambda a: rgba(a.get_color()),
            'size': lambda a: a.get_fontsize(),
            'rotation': lambda a: a.get_rotation(),
            'ha': lambda a: a.get_ha(),
            'family': lambda a: a.get_family()[0],
        }
        for k0, v in kw.items():
            k = ALIASES.get(k0, k0)
            if kind == 'Patch' and k == 'color':
                want = rgba(v)
                if 'alpha' in kw:
                    want = want[:3] + (round(kw['alpha'], 6),)
                ctx.check(rgba(art.get_edgecolor()) == want
                          and (not art.get_fill()
                               or rgba(art.get_facecolor()) == want),
                          "Patch | caller keyword 'color' does not override "
                          'the stored edge / face colours',
                          f'edge {rgba(art.get_edgecolor())} face '
                          f'{rgba(art.get_facecolor())} fill {art.get_fill()} '
                          f'vs {want}; visual {rs["visual"]}')
                continue
            got = getters[k](art)
            want = v
            if k == 'linestyle' and v == ':':
                want = ':'
            if k in ('edgecolor', 'facecolor', 'markeredgecolor', 'color'):
                want = rgba(v)
                if k in ('edgecolor', 'facecolor') and 'alpha' in kw:
                    want = want[:3] + (round(kw['alpha'], 6),)
                if k == 'facecolor' and not art.get_fill():
                    continue
            ctx.check(got == want,
                      f'{kind} | caller keyword {k!r} does not override the '
                      'stored visual', f'{got!r} vs {want!r}; visual '
                      f'{rs["visual"]}')
        # without keywords the stored visual is what the artist shows
        plain = reg.as_artist()
        vis = rs['visual']
        if kind == 'Patch' and 'linewidth' in vis and 'linewidth' not in kw:
            ctx.check(plain.get_linewidth() == vis['linewidth'],
                      'Patch | stored linewidth not applied')
        if kind == 'Patch' and 'color' in vis and 'edgecolor' not in vis:
            want = rgba('#00ff00' if vis.get('default_style') == 'ds9'
                        and vis['color'] == 'green' else vis['color'])
            ctx.check(rgba(plain.get_edgecolor()) == want,
                      'Patch | stored color is not the edge colour',
                      f'{rgba(plain.get_edgecolor())} vs {want}')
        if kind == 'Text' and 'fontsize' in vis:
            ctx.check(plain.get_fontsize() == vis['fontsize'],
                      'Text | stored fontsize not applied')
        overlap = set(kw) & {{'color': 'edgecolor'}.get(k, k) for k in vis}
        ctx.nontrivial(bool(kw) and (bool(overlap) or bool(vis)))


RELATIONS = [Patch(), Markers(), Kwargs()]
