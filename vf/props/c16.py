"""C16 - regions are values: copies are equal and independent, equality sees
every field."""
import copy
import math

import numpy as np
from hypothesis import strategies as st
from hypothesis.stateful import (RuleBasedStateMachine, initialize, invariant,
                                 rule)

from vf import spec as S
from vf.fingerprint import fp
from vf.gen import regions as G
from vf.gen import sky as GS
from vf.runner import Mismatch, Relation

LEVEL = 'exploration'
RULE = ('C16.values: Hypothesis draws a region of any class (11 pixel, 10 sky, '
        'pixel and sky compounds) with populated meta/visual and one '
        'perturbation (every shape parameter, every meta entry, every visual '
        'entry: changed / added / removed; class change; vertex count change; '
        'position changes of 1e-3 and 1e-7 relative; unit re-expression of '
        'angular quantities restricted to pairs astropy itself reports equal '
        'both ways); checks copy()/deepcopy equality, reflexivity, symmetry, '
        '!= as negation, independence of in-place mutations (meta, visual, '
        'list-valued entries, vertex arrays, in-place Quantity ops) in both '
        'directions, copy(field=v) changing exactly that field. C16.lists: '
        'rule-based state machine over a Regions list and its slices/copies '
        '(append, extend, insert, pop, reverse, slice, copy) against a Python '
        'list model. Non-trivial: the perturbed field is not the first '
        'parameter, or is array valued, or the region is a compound; a list '
        'history with >= 1 slice/copy followed by an edit.')
ASSUMPTIONS = [
    'pixel positions compare with numpy.allclose defaults (rtol 1e-5, atol '
    '1e-8) as documented for PixCoord; everything else exactly',
]

META_POOL = [('text', 'label one'), ('tag', ['a', 'b']), ('include', True),
             ('include', False), ('label', 'L'), ('comment', 'c'),
             ('component', 3), ('name', 'n'), ('range', [1, 2]),
             ('corr', ['I', 'Q']), ('type', 'ann'), ('frame', 'lsrk'),
             ('restfreq', '1.42GHz'), ('veltype', 'radio'), ('select', 1),
             ('source', 0), ('rotate', 1)]
VISUAL_POOL = [('color', 'red'), ('linewidth', 2), ('dashlist', [8, 3]),
               ('fontsize', 12), ('symbol', 'o'), ('fill', True),
               ('facecolor', 'blue'), ('edgecolor', '#00ff00'),
               ('linestyle', '--'), ('marker', '+'), ('markersize', 7.5),
               ('fontname', 'times'), ('fontweight', 'bold'),
               ('textangle', 30.0), ('rotation', 15), ('dash', 1),
               ('default_style', 'ds9')]


def metas(pool):
    return st.lists(st.sampled_from(pool), min_size=0, max_size=5).map(
        lambda items: {k: copy.deepcopy(v) for k, v in items})


def any_region():
    sz = G.sizes(1e-2, 1e4)
    pix = G.simple_pixel(sz, meta=False)
    near = G.simple_pixel(G.sizes(0.5, 50), 'near', meta=False)
    sky = GS.simple_sky(meta=False)
    return st.one_of(pix, pix, sky, sky,
                     G.compound(near, max_depth=2, with_meta=False),
                     GS.compound(GS.simple_sky(meta=False), max_depth=2))


def _with_meta(rs, meta, visual):
    rs = dict(rs)
    if rs['cls'].startswith('Compound'):
        # decorate the leaves; the compound keeps region1's unless given
        rs['r1'] = _with_meta(rs['r1'], meta, visual)
        rs['r2'] = _with_meta(rs['r2'], {}, visual)
        if rs.get('meta') is None:
            rs.pop('meta', None)
        return rs
    rs['meta'] = dict(meta)
    rs['visual'] = dict(visual)
    return rs


def param_fps(reg):
    d = {p: fp(getattr(reg, p)) for p in reg._params}
    d['meta'] = fp(reg.meta)
    d['visual'] = fp(reg.visual)
    return d


def perturb_value(reg, name, how, k):
    """Return a changed value for parameter *name* (not applied)."""
    import astropy.units as u
    from astropy.coordinates import SkyCoord
    from regions import PixCoord
    v = getattr(reg, name)
    if isinstance(v, PixCoord):
        rel = 1e-3 if how != 'tiny' else 1e-7
        if v.isscalar:
            d = rel * max(abs(v.x), 1.0) * (1 if k % 2 else -1)
            if how == 'tiny':
                d = rel * abs(v.x) * 0.5
            return PixCoord(v.x + d, v.y)
        x = np.array(v.x, dtype=float)
        i = k % len(x)
        x[i] += rel * max(abs(x[i]), 1.0) if how != 'tiny' \
            else rel * abs(x[i]) * 0.5
        return PixCoord(x, np.array(v.y, dtype=float))
    if isinstance(v, SkyCoord):
        sph = v.spherical
        lat = np.array(sph.lat.deg, dtype=float)
        if lat.ndim == 0:
            lat = lat + (1e-6 if lat < 0 else -1e-6)
        else:
            lat[k % len(lat)] += 1e-6 if lat[k % len(lat)] < 0 else -1e-6
        return SkyCoord(sph.lon, lat * u.deg, frame=v.frame)
    if isinstance(v, u.Quantity):
        return u.Quantity(np.nextafter(v.value, np.inf if k % 2 else -np.inf)
                          if v.value != 0 else 1e-300, v.unit)
    if isinstance(v, str):
        return v + 'x'
    if isinstance(v, (int, np.integer)) and name == 'nvertices':
        return int(v) + 1
    if isinstance(v, (float, int, np.floating, np.integer)):
        return float(np.nextafter(float(v), np.inf))
    return None


class Values(Relation):
    name = 'C16.values'
    examples = {'quick': 600, 'thorough': 8000}
    shards = {'quick': 8, 'thorough': 16}

    def strategy(self, tier):
        return st.fixed_dictionaries({
            'how': st.sampled_from(['param', 'param', 'param', 'tiny', 'meta',
                                    'visual', 'class', 'nverts', 'unit']),
            'k': st.integers(0, 50),
            'meta': metas(META_POOL), 'visual': metas(VISUAL_POOL),
            'extra': st.sampled_from(META_POOL),
            'vextra': st.sampled_from(VISUAL_POOL),
            'region': any_region(),
        })

    def check(self, sp, ctx):
        import astropy.units as u
        from regions import PixCoord
        rs = _with_meta(sp['region'], sp['meta'], sp['visual'])
        cls = rs['cls']
        R = S.build(rs)
        how, k = sp['how'], sp['k']
        ctx.label(cls, 'how:' + how)
        fp0 = param_fps(R)
        # ---- copies are equal
        C = R.copy()
        D = copy.deepcopy(R)
        for name, other in (('copy()', C), ('deepcopy', D)):
            ctx.check(type(other) is type(R), f'{cls} | {name} changes the class')
            ctx.check(other == R and R == other,
                      f'{cls} | {name} does not compare equal to the original')
            ctx.check(not (other != R) and not (R != other),
                      f'{cls} | != is not the negation of == for a {name}')
            ctx.check(param_fps(other) == fp0,
                      f'{cls} | {name} differs structurally from the original',
                      lambda: _first_diff(param_fps(other), fp0))
        ctx.check(R == R and not (R != R), f'{cls} | == is not reflexive')
        # ---- the meta/visual objects' own copy() is deep as well (it is what
        # to_sky/to_pixel hand to the regions they create)
        for attr in ('meta', 'visual'):
            src = getattr(R, attr)
            dup = src.copy()
            ctx.check(type(dup) is type(src) and dup == src and dup is not src,
                      f'{cls} | {attr}.copy() is not an equal, distinct object')
            for key in list(dup):
                if isinstance(dup[key], list):
                    dup[key].append('mut')
            dup['comment' if attr == 'meta' else 'color'] = 'mutated'
            ctx.check(param_fps(R) == fp0,
                      f'{cls} | mutating {attr}.copy() changes the region',
                      lambda: _first_diff(param_fps(R), fp0))
        # ---- independence: mutate the copy in place, the original must not move
        _mutate_in_place(C, sp)
        ctx.check(param_fps(R) == fp0,
                  f'{cls} | mutating the copy changes the original',
                  lambda: _first_diff(param_fps(R), fp0))
        C2 = R.copy()
        fpc = param_fps(C2)
        _mutate_in_place(R, sp)
        ctx.check(param_fps(C2) == fpc,
                  f'{cls} | mutating the original changes the copy',
                  lambda: _first_diff(param_fps(C2), fpc))
        R = S.build(rs)
        # ---- one perturbation
        params = list(R._params)
        nt = cls.startswith('Compound')
        if how in ('param', 'tiny'):
            cand = [p for p in params if p not in ('region1', 'region2',
                                                   'operator')]
            if cls.startswith('Compound'):
                # perturb inside region2
                inner = R.region2
                while type(inner).__name__.startswith('Compound'):
                    inner = inner.region2
                pn = list(inner._params)[k % len(inner._params)]
                nv = perturb_value(inner, pn, how, k)
                if nv is None or (how == 'tiny' and not isinstance(nv, PixCoord)):
                    ctx.nontrivial(False)
                    return
                P = copy.deepcopy(R)
                tgt = P.region2
                while type(tgt).__name__.startswith('Compound'):
                    tgt = tgt.region2
                try:
                    setattr(tgt, pn, nv)
                except ValueError:
                    return      # e.g. annulus ordering
                changed = f'region2...{pn}'
            else:
                pn = cand[k % len(cand)]
                nv = perturb_value(R, pn, how, k)
                if nv is None or (how == 'tiny' and not isinstance(nv, PixCoord)):
                    ctx.nontrivial(False)
                    return
                try:
                    P = R.copy(**{pn: nv})
                except ValueError:
                    return      # annulus inner >= outer etc.
                changed = pn
                # copy(field=v) changes exactly that field
                fpp = param_fps(P)
                others = [q for q in fpp if q != pn and fpp[q] != fp0[q]]
                if cls == 'RegularPolygonPixelRegion':
                    others = [q for q in others if q != 'vertices']
                ctx.check(not others,
                          f'{cls} | copy({pn}=...) also changes {others}')
                ctx.check(fpp[pn] == fp(nv),
                          f'{cls} | copy({pn}=v) does not store v')
                nt = nt or params.index(pn) > 0 or not getattr(
                    nv, 'isscalar', True)
            if how == 'tiny':
                ctx.check(P == R and R == P,
                          f'{cls} | a 1e-7 relative position change makes '
                          'regions unequal', changed)
            else:
                self._unequal(ctx, cls, R, P, f'{changed} perturbed')
        elif how in ('meta', 'visual'):
            attr = how
            P = R.copy()
            tgt = getattr(P.region1 if cls.startswith('Compound') and False
                          else P, attr)
            key, val = sp['extra'] if how == 'meta' else sp['vextra']
            mode = k % 5
            seq = tgt.get(key)
            if mode >= 3 and not (isinstance(seq, (list, tuple)) and seq):
                # prefer a list-valued entry the region already has
                for key2 in tgt:
                    if isinstance(tgt[key2], (list, tuple)) and tgt[key2]:
                        key, seq = key2, tgt[key2]
                        break
            if mode >= 3 and isinstance(seq, (list, tuple)) and seq:
                # sequences of different LENGTH: the old value is a prefix of
                # the new one, or the new one a prefix of the old
                if mode == 3:
                    tgt[key] = type(seq)(list(seq) + [copy.deepcopy(seq[-1])])
                    what = f'{attr}[{key!r}] has one more element'
                else:
                    tgt[key] = type(seq)(list(seq)[:-1])
                    what = f'{attr}[{key!r}] has one element fewer'
            elif mode % 3 == 0 or key not in tgt:
                if key in tgt and tgt[key] == val:
                    val = 'other-value'
                tgt[key] = copy.deepcopy(val)
                what = f'{attr}[{key!r}] set'
            elif mode % 3 == 1:
                del tgt[key]
                what = f'{attr}[{key!r}] removed'
            else:
                tgt[key] = 'changed-value'
                what = f'{attr}[{key!r}] changed'
            self._unequal(ctx, cls, R, P, what)
            # ... and differs from it in exactly that field (the copy's
            # meta/visual is its own: not, say, its first operand's)
            fpp = param_fps(P)
            others = [q for q in fpp if q != attr and fpp[q] != fp0[q]]
            ctx.check(not others, f'{cls} | editing the {attr} of a copy '
                      f'also changes its {others}')
            # copy(meta={}) / copy(visual={}): an explicitly empty value is a
            # value
            E = R.copy(**{attr: {}})
            fpe = param_fps(E)
            ctx.check(len(getattr(E, attr)) == 0,
                      f'{cls} | copy({attr}={{}}) is not empty',
                      lambda: f'{dict(getattr(E, attr))}')
            others = [q for q in fpe if q != attr and fpe[q] != fp0[q]]
            ctx.check(not others,
                      f'{cls} | copy({attr}={{}}) also changes {others}')
            getattr(E, attr)['comment' if attr == 'meta' else 'color'] = 'e'
            fpe = param_fps(E)
            others = [q for q in fpe if q != attr and fpe[q] != fp0[q]]
            ctx.check(not others and param_fps(R) == fp0,
                      f'{cls} | editing the {attr} of copy({attr}={{}}) also '
                      f'changes {others or "the original"}')
            nt = True
        elif how == 'class':
            other = S.build(_other_class(rs))
            if other is not None:
                self._unequal(ctx, cls, R, other, 'class differs')
            nt = True
        elif how == 'nverts':
            if cls in ('PolygonPixelRegion', 'PolygonSkyRegion'):
                P = _drop_vertex(R)
                self._unequal(ctx, cls, R, P, 'vertex count differs')
                nt = True
        elif how == 'unit':
            qn = [p for p in params if isinstance(getattr(R, p), u.Quantity)]
            if qn:
                pn = qn[k % len(qn)]
                v = getattr(R, pn)
                for unit in (u.deg, u.rad, u.arcmin, u.arcsec):
                    w = v.to(unit)
                    if unit != v.unit and bool(w == v) and bool(v == w):
                        try:
                            P = R.copy(**{pn: w})
                        except ValueError:
                            continue
                        ctx.check(P == R and R == P,
                                  f'{cls} | regions differing only by the '
                                  f'unit of {pn} compare unequal',
                                  f'{v!r} vs {w!r}')
                        nt = True
                # ... while a value that DIFFERS (by a few 1e-6, 1e-9
                # relative) stays different when written in another unit
                for unit in (u.deg, u.rad, u.arcmin, u.arcsec):
                    if unit == v.unit:
                        continue
                    for rel in (3e-6, 2e-9):
                        w = (v * (1 + rel)).to(unit)
                        if bool(w == v) or w.value == 0:
                            continue
                        try:
                            P = R.copy(**{pn: w})
                        except ValueError:
                            continue
                        self._unequal(ctx, cls, R, P, f'{pn} differs by a '
                                      f'relative {rel:g} and is written in '
                                      'another unit')
        ctx.nontrivial(nt)

    @staticmethod
    def _unequal(ctx, cls, R, P, what):
        for a, b, d in ((R, P, 'R == P'), (P, R, 'P == R')):
            try:
                eq = a == b
                ne = a != b
            except Exception as e:   # noqa: BLE001
                ctx.fail(f'{cls} | comparison raises {type(e).__name__} '
                         f'({what})', str(e)[:200])
            ctx.check(eq is False or eq is np.False_,
                      f'{cls} | regions compare equal although {what}', d)
            ctx.check(ne is True or ne is np.True_,
                      f'{cls} | != is not the negation of == ({what})', d)


def _first_diff(a, b):
    for k in a:
        if a[k] != b.get(k):
            return f'{k}: {a[k]} vs {b.get(k)}'
    return ''


def _mutate_in_place(reg, sp):
    """In-place mutations of everything mutable reachable from *reg*."""
    import astropy.units as u
    from regions import PixCoord
    for tgt in (reg.meta, reg.visual):
        for key in list(tgt):
            if isinstance(tgt[key], list):
                tgt[key].append('mut')
        for key in list(tgt)[:1]:
            tgt[key] = 'mutated'
    reg.meta['comment'] = 'mutated'
    reg.visual['color'] = 'mutated'
    for p in reg._params:
        v = getattr(reg, p)
        if isinstance(v, PixCoord) and not v.isscalar:
            if v.x.flags.writeable:
                v.x[...] = v.x + 1
                v.y[...] = v.y - 1
        elif type(v).__name__ == 'SkyCoord' and not v.isscalar and len(v) > 1:
            # an array SkyCoord supports item assignment (astropy >= 4.1):
            # the copy's vertices are its own
            try:
                v[0] = v[-1]
            except Exception:   # noqa: BLE001
                pass
        elif isinstance(v, PixCoord) and v.isscalar:
            try:
                v.x, v.y = v.x + 1, v.y - 1    # attributes of the held object
            except Exception:   # noqa: BLE001
                pass
        elif isinstance(v, u.Quantity):
            try:
                v *= 2          # in place on the stored object
            except Exception:   # noqa: BLE001
                pass
        elif p in ('region1', 'region2'):
            _mutate_in_place(v, sp)


def _other_class(rs):
    cls = rs['cls']
    swap = {'CirclePixelRegion': ('PointPixelRegion', ['center']),
            'PointPixelRegion': ('TextPixelRegion', ['center']),
            'TextPixelRegion': ('PointPixelRegion', ['center']),
            'EllipsePixelRegion': ('RectanglePixelRegion',
                                   ['center', 'width', 'height', 'angle']),
            'RectanglePixelRegion': ('EllipsePixelRegion',
                                     ['center', 'width', 'height', 'angle']),
            'EllipseAnnulusPixelRegion': (
                'RectangleAnnulusPixelRegion',
                ['center', 'inner_width', 'outer_width', 'inner_height',
                 'outer_height', 'angle']),
            'RectangleAnnulusPixelRegion': (
                'EllipseAnnulusPixelRegion',
                ['center', 'inner_width', 'outer_width', 'inner_height',
                 'outer_height', 'angle']),
            'CircleSkyRegion': ('PointSkyRegion', ['center']),
            'PointSkyRegion': ('TextSkyRegion', ['center']),
            'TextSkyRegion': ('PointSkyRegion', ['center']),
            'EllipseSkyRegion': ('RectangleSkyRegion',
                                 ['center', 'width', 'height', 'angle']),
            'RectangleSkyRegion': ('EllipseSkyRegion',
                                   ['center', 'width', 'height', 'angle']),
            'EllipseAnnulusSkyRegion': (
                'RectangleAnnulusSkyRegion',
                ['center', 'inner_width', 'outer_width', 'inner_height',
                 'outer_height', 'angle']),
            'RectangleAnnulusSkyRegion': (
                'EllipseAnnulusSkyRegion',
                ['center', 'inner_width', 'outer_width', 'inner_height',
                 'outer_height', 'angle'])}
    if cls not in swap:
        # compare with a point at an arbitrary place
        if cls.endswith('SkyRegion'):
            return {'cls': 'PointSkyRegion',
                    'center': {'frame': 'icrs', 'lon': 1.0, 'lat': 2.0},
                    'meta': rs.get('meta') if not cls.startswith('Compound')
                    else {}, 'visual': rs.get('visual') or {}}
        return {'cls': 'PointPixelRegion', 'center': [1.0, 2.0],
                'meta': rs.get('meta') if not cls.startswith('Compound')
                else {}, 'visual': rs.get('visual') or {}}
    new, keep = swap[cls]
    out = {'cls': new, 'meta': rs.get('meta'), 'visual': rs.get('visual'),
           'num': rs.get('num')}
    for kk in keep:
        if kk in rs:
            out[kk] = rs[kk]
    if new.startswith('Text'):
        out['text'] = 't'
    return out


def _drop_vertex(R):
    from astropy.coordinates import SkyCoord
    from regions import PixCoord
    v = R.vertices
    if isinstance(v, PixCoord):
        x = np.append(np.asarray(v.x, float), float(v.x[0]) + 1.0)
        y = np.append(np.asarray(v.y, float), float(v.y[0]) + 1.0)
        return R.copy(vertices=PixCoord(x, y))
    sph = v.spherical
    import astropy.units as u
    lon = np.append(sph.lon.deg, sph.lon.deg[0]) * u.deg
    lat = np.append(sph.lat.deg, sph.lat.deg[0] * 0.5) * u.deg
    return R.copy(vertices=SkyCoord(lon, lat, frame=v.frame))


# ------------------------------------------------------------------ lists ---

class Lists(Relation):
    name = 'C16.lists'
    stateful = True
    examples = {'quick': 60, 'thorough': 600}
    shards = {'quick': 4, 'thorough': 16}
    steps = {'quick': 25, 'thorough': 40}

    def strategy(self, tier):
        return None

    def check(self, spec, ctx):
        """Replay of a recorded history."""
        m = ListModel(ctx)
        for op in spec['history']:
            m.apply(op)

    def machine(self, ctx):
        rel = self

        class Machine(RuleBasedStateMachine):
            def __init__(self):
                super().__init__()
                ctx.begin({'history': []})
                self.m = ListModel(ctx)
                self.hist = []

            def _do(self, op):
                self.hist.append(op)
                try:
                    self.m.apply(op)
                except Mismatch as e:
                    if e.key in ctx.suppressed or ctx.is_known(e.key):
                        return
                    ctx.last_fail = ({'history': list(self.hist)}, e.key, e.msg)
                    raise

            @rule(i=st.integers(0, 5), r=st.integers(0, 7))
            def append(self, i, r):
                self._do(['append', i, r])

            @rule(i=st.integers(0, 5), rs=st.lists(st.integers(0, 7),
                                                   max_size=3),
                  as_regions=st.booleans())
            def extend(self, i, rs, as_regions):
                self._do(['extend', i, rs, as_regions])

            @rule(i=st.integers(0, 5), j=st.integers(0, 5),
                  form=st.integers(0, 2))
            def extend_from(self, i, j, form):
                # the argument is an object that lives on: another tracked
                # list, its .regions, or a plain list the caller keeps
                self._do(['extend_from', i, j, form])

            @rule()
            def new_empty(self):
                self._do(['new_empty', 0])

            @rule(i=st.integers(0, 5), pos=st.integers(-4, 6),
                  r=st.integers(0, 7))
            def insert(self, i, pos, r):
                self._do(['insert', i, pos, r])

            @rule(i=st.integers(0, 5), pos=st.integers(-4, 4))
            def pop(self, i, pos):
                self._do(['pop', i, pos])

            @rule(i=st.integers(0, 5))
            def reverse(self, i):
                self._do(['reverse', i])

            @rule(i=st.integers(0, 5), a=st.one_of(st.none(), st.integers(-3, 5)),
                  b=st.one_of(st.none(), st.integers(-3, 6)),
                  c=st.sampled_from([None, 1, 2, -1]))
            def slice_(self, i, a, b, c):
                self._do(['slice', i, a, b, c])

            @rule(i=st.integers(0, 5))
            def copy_(self, i):
                self._do(['copy', i])

            @rule(i=st.integers(0, 5), pos=st.integers(-4, 6))
            def getitem(self, i, pos):
                self._do(['getitem', i, pos])

            def teardown(self):
                nt = False
                seen_derive = False
                for op in self.hist:
                    if op[0] in ('slice', 'copy'):
                        seen_derive = True
                    elif seen_derive and op[0] in ('append', 'extend',
                                                   'extend_from',
                                                   'insert', 'pop', 'reverse'):
                        nt = True
                ctx._spec = {'history': list(self.hist)}
                ctx.nontrivial(nt)
                ctx.end()

        return Machine


class ListModel:
    """Several Regions objects with a plain Python list each as the model."""

    def __init__(self, ctx):
        from regions import CirclePixelRegion, PixCoord, Regions
        self.ctx = ctx
        self.pool = [CirclePixelRegion(PixCoord(i, 2 * i), i + 1)
                     for i in range(8)]
        self.real = [Regions([self.pool[0], self.pool[1], self.pool[2]])]
        self.model = [[self.pool[0], self.pool[1], self.pool[2]]]
        # plain lists the caller passes to extend() and keeps
        self.args = [[self.pool[1], self.pool[4]], [self.pool[6]], []]
        self.args_model = [list(a) for a in self.args]

    def _pick(self, i):
        i %= len(self.real)
        return i

    def apply(self, op):
        from regions import Regions
        ctx = self.ctx
        kind = op[0]
        i = self._pick(op[1])
        real, model = self.real[i], self.model[i]
        if kind == 'append':
            real.append(self.pool[op[2]])
            model.append(self.pool[op[2]])
        elif kind == 'extend':
            items = [self.pool[r] for r in op[2]]
            real.extend(Regions(list(items)) if op[3] else list(items))
            model.extend(items)
        elif kind == 'extend_from':
            j = self._pick(op[2])
            if op[3] == 0:
                arg, items = self.real[j], list(self.model[j])
            elif op[3] == 1:
                arg, items = self.real[j].regions, list(self.model[j])
            else:
                k = op[2] % len(self.args)
                arg, items = self.args[k], list(self.args_model[k])
            if len(model) + len(items) > 96:
                # (a list extended from itself doubles at every step: keep
                # the sizes bounded, the history stays as drawn)
                ctx.count('extend_from_skipped_large')
                ctx.count('steps')
                return
            real.extend(arg)
            model.extend(items)
        elif kind == 'new_empty':
            if len(self.real) < 6:
                self.real.append(Regions([]))
                self.model.append([])
        elif kind == 'insert':
            real.insert(op[2], self.pool[op[3]])
            model.insert(op[2], self.pool[op[3]])
        elif kind == 'pop':
            try:
                want = model.pop(op[2])
                werr = None
            except IndexError as e:
                werr = e
            try:
                got = real.pop(op[2])
                gerr = None
            except IndexError as e:
                gerr = e
            ctx.check((werr is None) == (gerr is None),
                      'pop | raises differently from a list')
            if werr is None:
                ctx.check(got is want, 'pop | returns a different element')
        elif kind == 'reverse':
            real.reverse()
            model.reverse()
        elif kind == 'slice':
            sl = slice(op[2], op[3], op[4])
            new = real[sl]
            ctx.check(isinstance(new, Regions), 'slice | not a Regions object')
            if len(self.real) < 6:
                self.real.append(new)
                self.model.append(model[sl])
        elif kind == 'copy':
            new = real.copy()
            ctx.check(isinstance(new, Regions), 'copy | not a Regions object')
            if len(self.real) < 6:
                self.real.append(new)
                self.model.append(list(model))
        elif kind == 'getitem':
            try:
                want = model[op[2]]
                werr = None
            except IndexError as e:
                werr = e
            try:
                got = real[op[2]]
                gerr = None
            except IndexError as e:
                gerr = e
            ctx.check((werr is None) == (gerr is None),
                      'getitem | raises differently from a list')
            if werr is None:
                ctx.check(got is want, 'getitem | wrong element')
        # invariant: every list agrees with its model
        for j, (r, m) in enumerate(zip(self.real, self.model)):
            ctx.check(len(r) == len(m) and all(a is b for a, b in
                                               zip(r.regions, m)),
                      f'{kind} | a list differs from its model after the step',
                      f'list #{j} (edited list #{i}): '
                      f'{[getattr(a, "radius", None) for a in r.regions]} vs '
                      f'{[getattr(a, "radius", None) for a in m]}')
        for k, (a, m) in enumerate(zip(self.args, self.args_model)):
            ctx.check(len(a) == len(m) and all(x is y for x, y in zip(a, m)),
                      f'{kind} | a list that was only passed to extend() '
                      'has changed',
                      f'argument list #{k}: {len(a)} elements, had {len(m)}')
        ctx.count('steps')


RELATIONS = [Values(), Lists()]
