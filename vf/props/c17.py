"""C17 - no sequence of constructions and assignments yields an invalid region."""
import copy

import numpy as np
from hypothesis import strategies as st
from hypothesis.stateful import RuleBasedStateMachine, rule

from vf.fingerprint import fp
from vf.runner import Mismatch, Relation

LEVEL = 'exploration'
RULE = ('C17.catalogue: every region class x every parameter x a catalogue of '
        'invalid values per documented parameter kind (0, negatives, NaN, '
        '+-inf, str, None, list, 0-d and 1-d arrays, Quantities of the wrong '
        'physical type, plain numbers where an angle is required, array or '
        'wrong-kind coordinates, non-region operands, bad meta/visual '
        'containers) x {constructor, assignment}, drawn by Hypothesis. '
        'C17.machine: rule-based state machine per region object interleaving '
        'valid and invalid assignments, deletions and meta/visual mutations '
        'through every dict entry point, with a shadow model of the accepted '
        'values; annulus ordering is an invariant after every accepted step. '
        'C17.containers: Regions under constructor/append/extend/insert with '
        'non-region members, RegionBoundingBox and RegionMask constructors. '
        'Oracle: an invalid value raises ValueError/TypeError/KeyError and the '
        'deep fingerprint of the object is unchanged; a valid value reads back '
        'identical. Non-trivial: catalogue entries other than 0/negative; '
        'histories with a rejected step followed by an accepted step on a '
        'different field.')
ASSUMPTIONS = [
    'parameter kinds are taken from the documented signatures; `text` is '
    'unvalidated by design and is not in the catalogue',
    'assigning to the read-only `operator` of a compound may raise '
    'AttributeError (counted as a rejection)',
]
REJECT = (ValueError, TypeError, KeyError)


# ------------------------------------------------------------- baselines ---

def _u():
    import astropy.units as u
    return u


def baseline(cls):
    """A valid instance of every class, built from documented-valid values."""
    import regions as R
    from astropy.coordinates import SkyCoord
    u = _u()
    pc = R.PixCoord(3.5, -2.0)
    sc = SkyCoord(10 * u.deg, 20 * u.deg, frame='icrs')
    meta = R.RegionMeta({'text': 'hello', 'tag': ['a']})
    vis = R.RegionVisual({'color': 'red'})
    kw = dict(meta=meta, visual=vis)
    B = {
        'CirclePixelRegion': lambda: R.CirclePixelRegion(pc, 2.5, **kw),
        'EllipsePixelRegion': lambda: R.EllipsePixelRegion(pc, 4, 2.5, 30 * u.deg, **kw),
        'RectanglePixelRegion': lambda: R.RectanglePixelRegion(pc, 4, 2.5, 30 * u.deg, **kw),
        'PolygonPixelRegion': lambda: R.PolygonPixelRegion(
            R.PixCoord([0, 3.0, 1], [0, 0.5, 4]), **kw),
        'RegularPolygonPixelRegion': lambda: R.RegularPolygonPixelRegion(
            pc, 5, 3.0, 10 * u.deg, **kw),
        'CircleAnnulusPixelRegion': lambda: R.CircleAnnulusPixelRegion(pc, 2.0, 5.0, **kw),
        'EllipseAnnulusPixelRegion': lambda: R.EllipseAnnulusPixelRegion(
            pc, 2.0, 5.0, 1.0, 4.0, 30 * u.deg, **kw),
        'RectangleAnnulusPixelRegion': lambda: R.RectangleAnnulusPixelRegion(
            pc, 2.0, 5.0, 1.0, 4.0, 30 * u.deg, **kw),
        'PointPixelRegion': lambda: R.PointPixelRegion(pc, **kw),
        'LinePixelRegion': lambda: R.LinePixelRegion(pc, R.PixCoord(8, 9), **kw),
        'TextPixelRegion': lambda: R.TextPixelRegion(pc, 'txt', **kw),
        'CircleSkyRegion': lambda: R.CircleSkyRegion(sc, 2.5 * u.arcsec, **kw),
        'EllipseSkyRegion': lambda: R.EllipseSkyRegion(
            sc, 4 * u.arcsec, 2.5 * u.arcsec, 30 * u.deg, **kw),
        'RectangleSkyRegion': lambda: R.RectangleSkyRegion(
            sc, 4 * u.arcsec, 2.5 * u.arcsec, 30 * u.deg, **kw),
        'PolygonSkyRegion': lambda: R.PolygonSkyRegion(
            SkyCoord([1, 2, 1.5] * u.deg, [1, 1, 2] * u.deg), **kw),
        'CircleAnnulusSkyRegion': lambda: R.CircleAnnulusSkyRegion(
            sc, 2 * u.arcsec, 5 * u.arcsec, **kw),
        'EllipseAnnulusSkyRegion': lambda: R.EllipseAnnulusSkyRegion(
            sc, 2 * u.arcsec, 5 * u.arcsec, 1 * u.arcsec, 4 * u.arcsec,
            30 * u.deg, **kw),
        'RectangleAnnulusSkyRegion': lambda: R.RectangleAnnulusSkyRegion(
            sc, 2 * u.arcsec, 5 * u.arcsec, 1 * u.arcsec, 4 * u.arcsec,
            30 * u.deg, **kw),
        'PointSkyRegion': lambda: R.PointSkyRegion(sc, **kw),
        'LineSkyRegion': lambda: R.LineSkyRegion(
            sc, SkyCoord(11 * u.deg, 21 * u.deg), **kw),
        'TextSkyRegion': lambda: R.TextSkyRegion(sc, 'txt', **kw),
        'CompoundPixelRegion': lambda: R.CompoundPixelRegion(
            R.CirclePixelRegion(pc, 2.5), R.CirclePixelRegion(pc, 4), OPS[0], **kw),
        'CompoundSkyRegion': lambda: R.CompoundSkyRegion(
            R.CircleSkyRegion(sc, 2 * u.arcsec), R.CircleSkyRegion(sc, 4 * u.arcsec),
            OPS[0], **kw),
    }
    return B[cls]()


import operator as _op  # noqa: E402

OPS = [_op.and_, _op.or_, _op.xor]
CLASSES = ['CirclePixelRegion', 'EllipsePixelRegion', 'RectanglePixelRegion',
           'PolygonPixelRegion', 'RegularPolygonPixelRegion',
           'CircleAnnulusPixelRegion', 'EllipseAnnulusPixelRegion',
           'RectangleAnnulusPixelRegion', 'PointPixelRegion',
           'LinePixelRegion', 'TextPixelRegion', 'CircleSkyRegion',
           'EllipseSkyRegion', 'RectangleSkyRegion', 'PolygonSkyRegion',
           'CircleAnnulusSkyRegion', 'EllipseAnnulusSkyRegion',
           'RectangleAnnulusSkyRegion', 'PointSkyRegion', 'LineSkyRegion',
           'TextSkyRegion', 'CompoundPixelRegion', 'CompoundSkyRegion']


def kind_of(cls, param):
    sky = cls.endswith('SkyRegion')
    if param in ('center', 'start', 'end'):
        return 'skycoord_scalar' if sky else 'pixcoord_scalar'
    if param == 'vertices':
        return 'skycoord_1d' if sky else 'pixcoord_1d'
    if param == 'angle':
        return 'angle'
    if param == 'nvertices':
        return 'nvertices'
    if param in ('region1', 'region2'):
        return 'region_sky' if sky else 'region_pixel'
    if param == 'operator':
        return 'operator'
    if param == 'text':
        return 'text'
    if param in ('meta', 'visual'):
        return param
    return 'pos_angle' if sky else 'pos_scalar'


def invalid_values(kind):
    """name -> thunk producing an invalid value for this parameter kind."""
    import regions as R
    from astropy.coordinates import SkyCoord
    u = _u()
    pc = R.PixCoord(1.0, 2.0)
    pca = R.PixCoord([1.0, 2.0, 3.0], [0.0, 1.0, 0.5])
    sc = SkyCoord(1 * u.deg, 2 * u.deg)
    sca = SkyCoord([1, 2, 3] * u.deg, [0, 1, 0.5] * u.deg)
    common = {'none': None, 'str': 'abc', 'list': [1.0, 2.0]}
    if kind == 'pos_scalar':
        return dict(common, zero=0, neg=-1.5, nan=float('nan'),
                    inf=float('inf'), ninf=float('-inf'), npnan=np.float64('nan'),
                    arr0d=np.array(2.0), arr1d=np.array([1.0, 2.0]),
                    tuple=(1, 2), q_angle=2 * u.deg, q_pix=2 * u.pix,
                    q_solid=2 * u.sr, q_len=2 * u.m,
                    numstr='2.5', negint=-3, complex_=2 + 1j)
    if kind == 'pos_angle':
        return dict(common, zero=0 * u.deg, neg=-1 * u.arcsec, nan=np.nan * u.deg,
                    inf=np.inf * u.arcsec, plain=5, plainf=2.5,
                    arr=[1, 2] * u.deg, q_len=3 * u.m, q_pix=3 * u.pix,
                    q_dimless=u.Quantity(3), numstr='5 arcsec',
                    # physical types whose NAME or units resemble an angle
                    q_solid=3 * u.sr, q_deg2=3 * u.deg ** 2,
                    q_arcsec2=3 * u.arcsec ** 2, q_angvel=3 * u.rad / u.s,
                    q_invangle=3 / u.deg, q_time=3 * u.s,
                    q_scale=3 * u.arcsec / u.pix, q_hz=3 * u.Hz)
    if kind == 'angle':
        return dict(common, plain=30, plainf=0.5, arr=[1, 2] * u.deg,
                    q_len=3 * u.m, q_dimless=u.Quantity(3), numstr='30 deg',
                    q_solid=30 * u.sr, q_deg2=30 * u.deg ** 2,
                    q_angvel=30 * u.deg / u.s, q_invangle=30 / u.rad,
                    q_time=30 * u.s, q_scale=30 * u.deg / u.pix)
    if kind == 'nvertices':
        return dict(common, zero=0, neg=-4, nan=float('nan'), two=2, one=1,
                    arr1d=np.array([3, 4]), q=5 * u.deg, inf=float('inf'))
    if kind == 'pixcoord_scalar':
        return dict(common, array=pca, sky=sc, tuple=(1.0, 2.0), num=3.0,
                    # arrays of ONE element (they broadcast against anything)
                    array1=R.PixCoord([4.0], [5.0]),
                    array5=R.PixCoord([4.0] * 5, [5.0] * 5),
                    arr2d=R.PixCoord([[1.0]], [[2.0]]), nparr=np.array([1.0, 2.0]))
    if kind == 'pixcoord_1d':
        return dict(common, scalar=pc, sky=sca,
                    twod=R.PixCoord([[1.0, 2], [3, 4]], [[1.0, 2], [3, 4]]),
                    tuples=[(0, 0), (1, 0), (0, 1)], nparr=np.zeros((3, 2)))
    if kind == 'skycoord_scalar':
        return dict(common, array=sca, pix=pc, tuple=(1.0, 2.0),
                    array1=SkyCoord([1.5] * u.deg, [2.5] * u.deg),
                    q=1 * u.deg, twod=SkyCoord([[1]] * u.deg, [[2]] * u.deg))
    if kind == 'skycoord_1d':
        return dict(common, scalar=sc, pix=pca,
                    twod=SkyCoord([[1, 2], [3, 4]] * u.deg, [[1, 2], [3, 4]] * u.deg))
    if kind == 'region_pixel':
        return dict(common, sky=R.CircleSkyRegion(sc, 1 * u.arcsec), coord=pc,
                    cls=R.CirclePixelRegion, regions=R.Regions([]))
    if kind == 'region_sky':
        return dict(common, pixel=R.CirclePixelRegion(pc, 1.0), coord=sc,
                    cls=R.CircleSkyRegion)
    if kind == 'operator':
        return dict(none=None, str='and', num=3)
    if kind == 'meta':
        return dict(none=None, str='abc', list=[('text', 'x')], num=3,
                    badkey={'nonsense_key': 1}, badkey_mixed={'text': 'ok',
                                                              'colour': 'red'},
                    visual_obj=R.RegionVisual({'color': 'red'}))
    if kind == 'visual':
        return dict(none=None, str='abc', num=3, badkey={'nonsense_key': 1},
                    badkey_mixed={'color': 'red', 'texture': 1},
                    meta_obj=R.RegionMeta({'text': 'x'}))
    return {}


def valid_values(kind):
    import regions as R
    from astropy.coordinates import Angle, SkyCoord
    u = _u()
    if kind == 'pos_scalar':
        return dict(f=3.25, i=3, npf=np.float64(2.75), npi=np.int64(4),
                    small=1e-3, big=1e6)
    if kind == 'pos_angle':
        return dict(arcsec=3 * u.arcsec, deg=0.001 * u.deg,
                    rad=1e-5 * u.rad, angle=Angle(2, 'arcmin'),
                    tiny=0.5 * u.arcsec)
    if kind == 'angle':
        return dict(deg=45 * u.deg, neg=-400 * u.deg, rad=1.0 * u.rad,
                    angle=Angle(0.2, 'rad'), zero=0 * u.deg,
                    arcmin=30 * u.arcmin)
    if kind == 'nvertices':
        return dict(three=3, seven=7)
    if kind == 'pixcoord_scalar':
        return dict(a=R.PixCoord(0.5, 0.25), b=R.PixCoord(-100, 7),
                    c=R.PixCoord(np.float64(1.0), 2))
    if kind == 'pixcoord_1d':
        return dict(tri=R.PixCoord([0.0, 1, 0], [0.0, 0, 1]),
                    quad=R.PixCoord([0, 2, 2, 0], [0, 0, 3, 3]))
    if kind == 'skycoord_scalar':
        return dict(icrs=SkyCoord(5 * u.deg, -3 * u.deg),
                    gal=SkyCoord(5 * u.deg, -3 * u.deg, frame='galactic'))
    if kind == 'skycoord_1d':
        return dict(tri=SkyCoord([0, 1, 0] * u.deg, [0, 0, 1] * u.deg))
    if kind == 'text':
        return dict(s='new text', empty='')
    if kind == 'meta':
        return dict(d={'text': 't2'}, obj=R.RegionMeta({'label': 'l'}),
                    empty={})
    if kind == 'visual':
        return dict(d={'color': 'blue'}, obj=R.RegionVisual({'linewidth': 3}),
                    empty={})
    if kind == 'region_pixel':
        return dict(circ=R.CirclePixelRegion(R.PixCoord(0, 0), 1.0))
    if kind == 'region_sky':
        return dict(circ=R.CircleSkyRegion(SkyCoord(0 * u.deg, 0 * u.deg),
                                           1 * u.arcsec))
    return {}


ANNULUS_PAIRS = (('inner_radius', 'outer_radius'),
                 ('inner_width', 'outer_width'),
                 ('inner_height', 'outer_height'))


def would_break_order(reg, param, value):
    """True when assigning *value* (valid on its own) to an annulus size
    would leave inner >= outer: the known cross-field finding."""
    for a, b in ANNULUS_PAIRS:
        if param == a and hasattr(reg, b):
            return not value < getattr(reg, b)
        if param == b and hasattr(reg, a):
            return not getattr(reg, a) < value
    return False


def annulus_ok(reg):
    """inner < outer for annuli (True for other classes)."""
    for a, b in (('inner_radius', 'outer_radius'), ('inner_width', 'outer_width'),
                 ('inner_height', 'outer_height')):
        if hasattr(reg, a) and not getattr(reg, a) < getattr(reg, b):
            return False
    return True


def all_params(cls):
    reg = baseline(cls)
    return [p for p in reg._params] + ['meta', 'visual']


def construct_with(cls, param, value):
    """Call the constructor with *param* replaced by *value*."""
    import regions as R
    reg = baseline(cls)
    kw = {p: getattr(reg, p) for p in reg._params}
    kw['meta'], kw['visual'] = reg.meta, reg.visual
    kw[param] = value
    return getattr(R, cls)(**kw)


class Catalogue(Relation):
    name = 'C17.catalogue'
    examples = {'quick': 700, 'thorough': 6000}
    shards = {'quick': 8, 'thorough': 16}

    def strategy(self, tier):
        return st.fixed_dictionaries({
            'cls': st.sampled_from(CLASSES),
            'p': st.integers(0, 9), 'v': st.integers(0, 40),
            'how': st.sampled_from(['assign', 'assign', 'construct']),
            # astropy's process-wide unit settings: none, or the
            # dimensionless-angles equivalency enabled around the operation
            # (what a domain IS does not depend on such a setting)
            'ambient': st.sampled_from(['none', 'none', 'none',
                                        'dimensionless_angles']),
        })

    def check(self, sp, ctx):
        if sp.get('ambient') == 'dimensionless_angles':
            u = _u()
            ctx.label('ambient:dimensionless_angles')
            with u.set_enabled_equivalencies(u.dimensionless_angles()):
                return self._check(sp, ctx)
        return self._check(sp, ctx)

    def _check(self, sp, ctx):
        cls = sp['cls']
        params = all_params(cls)
        param = params[sp['p'] % len(params)]
        kind = kind_of(cls, param)
        inv = invalid_values(kind)
        if not inv:
            ctx.label('kind:' + kind + ':no-invalid')
            return
        name = sorted(inv)[sp['v'] % len(inv)]
        value = inv[name]
        how = sp['how']
        if how == 'construct' and kind in ('meta', 'visual') and name == 'none':
            return      # meta=None / visual=None is the documented default
        tag = f'{cls}.{param} <- {kind}:{name} ({how})'
        ctx.label('kind:' + kind, 'how:' + how)
        # (every attempt is made more than once: being refused once must not
        # make the same value acceptable the next time)
        if how == 'construct':
            for attempt in ('', ' at the second attempt'):
                try:
                    obj = construct_with(cls, param, value)
                except REJECT:
                    pass
                else:
                    ctx.fail(f'{tag} | invalid value accepted by the '
                             f'constructor{attempt}', f'{value!r} -> {obj!r}')
        else:
            reg = baseline(cls)
            before = fp(reg)
            for attempt in ('', ' at the second attempt',
                            ' at the third attempt'):
                try:
                    setattr(reg, param, value)
                except REJECT:
                    pass
                except AttributeError:
                    if kind != 'operator':
                        raise
                else:
                    ctx.fail(f'{tag} | invalid value accepted on '
                             f'assignment{attempt}',
                             f'{value!r}; now {getattr(reg, param)!r}')
            ctx.check(fp(reg) == before,
                      f'{tag} | rejected assignment changed the object')
            # deletion of shape parameters is refused
            if param not in ('meta', 'visual', 'text'):
                try:
                    delattr(reg, param)
                except AttributeError:
                    pass
                else:
                    ctx.fail(f'{cls}.{param} | shape parameter can be deleted')
                ctx.check(fp(reg) == before,
                          f'{cls}.{param} | refused deletion changed the object')
        ctx.nontrivial(name not in ('zero', 'neg', 'negint'))


class ValidReadback(Relation):
    """Every accepted value is readable back unchanged."""
    name = 'C17.readback'
    examples = {'quick': 300, 'thorough': 3000}
    shards = {'quick': 4, 'thorough': 8}

    def strategy(self, tier):
        return st.fixed_dictionaries({
            'cls': st.sampled_from(CLASSES), 'p': st.integers(0, 9),
            'v': st.integers(0, 10),
            'how': st.sampled_from(['assign', 'construct'])})

    def check(self, sp, ctx):
        cls = sp['cls']
        params = all_params(cls)
        param = params[sp['p'] % len(params)]
        kind = kind_of(cls, param)
        val = valid_values(kind)
        if not val or kind == 'operator':
            return
        name = sorted(val)[sp['v'] % len(val)]
        value = val[name]
        tag = f'{cls}.{param} <- {kind}:{name} ({sp["how"]})'
        ctx.label('kind:' + kind)
        want = fp(value)
        if sp['how'] == 'assign' and not sp.get('force') and would_break_order(
                baseline(cls), param, value):
            ctx.count('excluded_known_annulus_cross_field')
            return
        try:
            if sp['how'] == 'assign':
                reg = baseline(cls)
                others = {p: fp(getattr(reg, p)) for p in params if p != param}
                setattr(reg, param, value)
            else:
                reg = construct_with(cls, param, value)
                others = None
        except ValueError:
            # annulus ordering / nvertices may legitimately refuse a value
            # that is valid on its own
            ctx.count('valid_value_refused_by_cross_check')
            return
        got = getattr(reg, param)
        if param in ('meta', 'visual'):
            ctx.check(dict(got) == dict(value) and type(got).__name__
                      == ('RegionMeta' if param == 'meta' else 'RegionVisual'),
                      f'{tag} | accepted value does not read back',
                      f'{got!r}')
        else:
            ctx.check(fp(got) == want, f'{tag} | accepted value does not read '
                      'back unchanged', f'{got!r} vs {value!r}')
        if others is not None and cls not in ('RegularPolygonPixelRegion',):
            now = {p: fp(getattr(reg, p)) for p in params if p != param}
            ctx.check(now == others, f'{tag} | assignment changed another field')
        ctx.check(annulus_ok(reg), f'{tag} | annulus ordering violated after '
                  'an accepted step')
        ctx.nontrivial(True)


# ------------------------------------------------------------ meta/visual ---

META_INVALID_KEYS = ['colour', 'nonsense', '', 'Text', 'color', 3, None,
                     ('text',)]
VIS_INVALID_KEYS = ['colour', 'nonsense', '', 'Color', 'text', 3, None]


class MetaOps(Relation):
    name = 'C17.meta'
    examples = {'quick': 500, 'thorough': 5000}
    shards = {'quick': 4, 'thorough': 8}

    def strategy(self, tier):
        return st.fixed_dictionaries({
            'which': st.sampled_from(['meta', 'visual']),
            'entry': st.sampled_from(['setitem', 'update_dict', 'update_pairs',
                                      'update_kwargs', 'update_mixed_dict',
                                      'update_mixed_pairs', 'setdefault', 'ior',
                                      'update_pos_bad_kwarg',
                                      'update_kwargs_mixed',
                                      'ctor_dict', 'ctor_pairs', 'ctor_kwargs',
                                      'assign_dict', 'or', 'fromkeys',
                                      # a metadata OBJECT of the other kind
                                      # (its keys were validated - for it)
                                      'update_other_kind', 'ior_other_kind',
                                      'ctor_other_kind']),
            'bad': st.integers(0, 7), 'pos': st.integers(0, 2),
            'via_region': st.booleans(),
        })

    def check(self, sp, ctx):
        import regions as R
        which, entry = sp['which'], sp['entry']
        Cls = R.RegionMeta if which == 'meta' else R.RegionVisual
        pool = META_INVALID_KEYS if which == 'meta' else VIS_INVALID_KEYS
        bad = pool[sp['bad'] % len(pool)]
        good = [('text', 'T'), ('tag', ['x'])] if which == 'meta' else \
            [('color', 'blue'), ('linewidth', 5)]
        start = {'label': 'keep'} if which == 'meta' else {'fontsize': 9}
        reg = R.CirclePixelRegion(R.PixCoord(1, 2), 3, **{which: Cls(start)})
        obj = getattr(reg, which) if sp['via_region'] else Cls(start)
        before = fp(obj)
        items = list(good)
        items.insert(sp['pos'] % 3, (bad, 'BAD'))
        tag = f'{which}.{entry} key={bad!r}'
        ctx.label(which, entry)
        if which == 'visual' and sp['bad'] % 4 == 0 and entry in (
                'setitem', 'update_dict', 'update_pairs', 'update_kwargs',
                'ior', 'ctor_dict', 'ctor_kwargs', 'setdefault'):
            # documented aliases are accepted and stored under the real key
            alias, real = [('width', 'linewidth'), ('point', 'symbol')][
                sp['pos'] % 2]
            tgt = obj
            if entry == 'setitem':
                tgt[alias] = 7
            elif entry == 'update_dict':
                tgt.update({alias: 7})
            elif entry == 'update_pairs':
                tgt.update([(alias, 7)])
            elif entry == 'update_kwargs':
                tgt.update(**{alias: 7})
            elif entry == 'ior':
                tgt |= {alias: 7}
            elif entry == 'setdefault':
                tgt.setdefault(alias, 7)
            elif entry == 'ctor_dict':
                tgt = Cls({alias: 7})
            else:
                tgt = Cls(**{alias: 7})
            ctx.check(dict.get(tgt, real) == 7 and alias not in dict.keys(tgt)
                      and tgt[alias] == 7,
                      f'visual.{entry} alias {alias!r} | not stored under '
                      f'{real!r}', repr(dict(tgt)))
            ctx.check(all(k in Cls.valid_keys for k in dict.keys(tgt)),
                      f'visual.{entry} alias | invalid key stored')
            ctx.nontrivial(True)
            return
        strkey = isinstance(bad, str) and bad.isidentifier()
        result = None
        try:
            if entry == 'setitem':
                obj[bad] = 'BAD'
            elif entry == 'update_dict':
                obj.update({bad: 'BAD'})
            elif entry == 'update_pairs':
                obj.update([(bad, 'BAD')])
            elif entry == 'update_kwargs':
                if not strkey:
                    return
                obj.update(**{bad: 'BAD'})
            elif entry == 'update_mixed_dict':
                obj.update(dict(items))
            elif entry == 'update_mixed_pairs':
                obj.update(items)
            elif entry == 'setdefault':
                obj.setdefault(bad, 'BAD')
            elif entry == 'update_pos_bad_kwarg':
                if not strkey:
                    return
                obj.update(dict(good), **{bad: 'BAD'})
            elif entry == 'update_kwargs_mixed':
                if not strkey:
                    return
                obj.update(**{k: v for k, v in items})
            elif entry == 'ior':
                obj |= dict(items)
            elif entry == 'or':
                result = obj | dict(items)
            elif entry == 'ctor_dict':
                result = Cls(dict(items))
            elif entry == 'ctor_pairs':
                result = Cls(items)
            elif entry == 'ctor_kwargs':
                if not strkey:
                    return
                result = Cls(**{k: v for k, v in items})
            elif entry == 'assign_dict':
                setattr(reg, which, dict(items))
                obj = getattr(reg, which)
            elif entry == 'fromkeys':
                result = Cls.fromkeys([k for k, _ in items], 1)
            elif entry.endswith('_other_kind'):
                Other = R.RegionVisual if which == 'meta' else R.RegionMeta
                own = set(Cls.valid_keys) | set(getattr(Cls, 'key_mapping', {}))
                fk = [k for k in Other.valid_keys if k not in own][
                    sp['bad'] % 3]
                other = Other({fk: 'BAD'})
                tag = f'{which}.{entry} key={fk!r}'
                if entry == 'update_other_kind':
                    obj.update(other)
                elif entry == 'ior_other_kind':
                    obj |= other
                else:
                    result = Cls(other)
        except REJECT:
            pass
        else:
            if result is not None and not isinstance(result, Cls):
                # e.g. `meta | dict` returning a plain dict is not a meta object
                pass
            elif result is not None:
                ctx.fail(f'{tag} | key outside the vocabulary accepted',
                         f'{dict(result)!r}')
            else:
                ctx.fail(f'{tag} | key outside the vocabulary accepted',
                         f'{dict(obj)!r}')
        now = getattr(reg, which) if (sp['via_region'] or entry == 'assign_dict') \
            else obj
        if entry == 'assign_dict' and not sp['via_region']:
            before = fp(Cls(start))
        ctx.check(fp(now) == before,
                  f'{tag} | rejected operation changed the object',
                  f'{dict(now)!r}')
        bad_in = [k for k in dict.keys(now) if k not in Cls.valid_keys]
        ctx.check(not bad_in, f'{tag} | invalid key stored', repr(bad_in))
        ctx.nontrivial(entry not in ('setitem',))


# -------------------------------------------------------------- containers ---

class Containers(Relation):
    name = 'C17.containers'
    examples = {'quick': 400, 'thorough': 4000}
    shards = {'quick': 4, 'thorough': 8}

    def strategy(self, tier):
        return st.fixed_dictionaries({
            'what': st.sampled_from(['regions_ctor', 'regions_append',
                                     'regions_extend', 'regions_insert',
                                     'regions_extend_mixed', 'bbox', 'mask']),
            'bad': st.integers(0, 8), 'pos': st.integers(-3, 4),
            'n': st.integers(0, 3),
            'box': st.tuples(st.integers(-5, 5), st.integers(0, 4),
                             st.integers(-5, 5), st.integers(0, 4)),
            'shape': st.tuples(st.integers(0, 5), st.integers(0, 5)),
        })

    def check(self, sp, ctx):
        import regions as R
        u = _u()
        what = sp['what']
        ctx.label(what)
        pc = R.PixCoord(1, 2)
        good = [R.CirclePixelRegion(pc, i + 1.0) for i in range(sp['n'])]
        bads = [None, 'circle', 3, pc, R.CirclePixelRegion, [good[:1]],
                {'a': 1}, R.RegionBoundingBox(0, 1, 0, 1), 1 * u.deg]
        bad = bads[sp['bad'] % len(bads)]
        tag = f'{what} member={type(bad).__name__}'
        if what.startswith('regions'):
            regs = R.Regions(list(good))
            before = [id(r) for r in regs.regions]
            try:
                if what == 'regions_ctor':
                    items = list(good)
                    items.insert(max(0, min(len(items), sp['pos'])), bad)
                    out = R.Regions(items)
                    ctx.fail(f'{tag} | non-region member accepted',
                             repr(out))
                elif what == 'regions_append':
                    regs.append(bad)
                elif what == 'regions_extend':
                    regs.extend([bad])
                elif what == 'regions_extend_mixed':
                    regs.extend([R.CirclePixelRegion(pc, 9.0), bad])
                elif what == 'regions_insert':
                    regs.insert(sp['pos'], bad)
            except REJECT:
                pass
            else:
                ctx.fail(f'{tag} | non-region member accepted',
                         repr(regs.regions))
            ctx.check([id(r) for r in regs.regions] == before,
                      f'{tag} | rejected operation changed the list',
                      repr(regs.regions))
            ctx.nontrivial(True)
        elif what == 'bbox':
            x0, w, y0, h = sp['box']
            cases = {0: (x0 + 0.5, x0 + w, y0, y0 + h),
                     1: (x0, x0 + w, str(y0), y0 + h),
                     2: (x0 + w + 1, x0, y0, y0 + h),
                     3: (x0, x0 + w, y0 + h + 1, y0),
                     4: (None, x0 + w, y0, y0 + h),
                     5: (x0, float(x0 + w), y0, y0 + h),
                     6: (x0, x0 + w, y0, [y0 + h]),
                     7: (float('nan'), x0 + w, y0, y0 + h),
                     8: (x0, x0 + w, y0, float('inf'))}
            args = cases[sp['bad'] % len(cases)]
            try:
                out = R.RegionBoundingBox(*args)
            except REJECT:
                pass
            else:
                ctx.fail(f'bbox case {sp["bad"] % len(cases)} | invalid corner '
                         'accepted', f'{args} -> {out}')
            ctx.nontrivial(True)
        else:
            x0, w, y0, h = sp['box']
            ny, nx = sp['shape']
            bb = R.RegionBoundingBox(x0, x0 + w, y0, y0 + h)
            data = np.ones((ny, nx))
            if (ny, nx) == (h, w):
                m = R.RegionMask(data, bb)
                ctx.check(m.shape == (h, w), 'mask | shape not stored')
                ctx.nontrivial(False)
            else:
                try:
                    out = R.RegionMask(data, bb)
                except REJECT:
                    pass
                else:
                    ctx.fail('mask | data shape differing from the box shape '
                             'accepted', f'{data.shape} vs {bb.shape}')
                ctx.nontrivial(True)


# ---------------------------------------------------------------- machine ---

class Machine17(Relation):
    name = 'C17.machine'
    stateful = True
    examples = {'quick': 250, 'thorough': 2500}
    shards = {'quick': 8, 'thorough': 16}
    steps = {'quick': 20, 'thorough': 20}

    def strategy(self, tier):
        return None

    def check(self, spec, ctx):
        m = RegionModel(ctx, spec['cls'])
        for op in spec['history']:
            m.apply(op)

    def machine(self, ctx):
        class M(RuleBasedStateMachine):
            def __init__(self):
                super().__init__()
                self.hist = []
                self.model = None
                self.cls = None

            def _do(self, op):
                if self.model is None:
                    return
                self.hist.append(op)
                try:
                    self.model.apply(op)
                except Mismatch as e:
                    if e.key in ctx.suppressed or ctx.is_known(e.key):
                        self.model.resync()
                        return
                    ctx.last_fail = ({'cls': self.cls,
                                      'history': list(self.hist)}, e.key, e.msg)
                    raise

            @rule(c=st.sampled_from(CLASSES))
            def start(self, c):
                if self.model is None:
                    self.cls = c
                    ctx.begin({'cls': c, 'history': []})
                    self.model = RegionModel(ctx, c)

            @rule(p=st.integers(0, 9), v=st.integers(0, 40))
            def assign_invalid(self, p, v):
                self._do(['invalid', p, v])

            @rule(p=st.integers(0, 9), v=st.integers(0, 10))
            def assign_valid(self, p, v):
                self._do(['valid', p, v])

            @rule(p=st.integers(0, 9))
            def delete(self, p):
                self._do(['delete', p])

            @rule(which=st.sampled_from(['meta', 'visual']),
                  entry=st.sampled_from(['setitem', 'update_mixed_dict',
                                         'update_mixed_pairs', 'setdefault',
                                         'ior', 'assign_dict']),
                  bad=st.integers(0, 7), pos=st.integers(0, 2))
            def meta_invalid(self, which, entry, bad, pos):
                self._do(['meta_invalid', which, entry, bad, pos])

            @rule(which=st.sampled_from(['meta', 'visual']),
                  k=st.integers(0, 3))
            def meta_valid(self, which, k):
                self._do(['meta_valid', which, k])

            def teardown(self):
                if self.model is None:
                    return
                ctx._spec = {'cls': self.cls, 'history': list(self.hist)}
                ctx.label(self.cls)
                ctx.nontrivial(self.model.rejected_then_accepted)
                ctx.end()

        return M


class RegionModel:
    def __init__(self, ctx, cls):
        self.ctx = ctx
        self.cls = cls
        self.reg = baseline(cls)
        self.params = all_params(cls)
        self.shadow = fp(self.reg)
        self.last_rejected_field = None
        self.rejected_then_accepted = False

    def resync(self):
        self.shadow = fp(self.reg)

    def _accepted(self, field):
        if self.last_rejected_field not in (None, field):
            self.rejected_then_accepted = True
        self.shadow = fp(self.reg)

    def apply(self, op):
        import regions as R
        ctx, reg, cls = self.ctx, self.reg, self.cls
        kind_op = op[0]
        ctx.count('steps')
        if kind_op in ('invalid', 'valid', 'delete'):
            param = self.params[op[1] % len(self.params)]
            kind = kind_of(cls, param)
        if kind_op == 'invalid':
            inv = invalid_values(kind)
            if not inv:
                return
            name = sorted(inv)[op[2] % len(inv)]
            tag = f'{cls}.{param} <- {kind}:{name} (assign)'
            try:
                setattr(reg, param, inv[name])
            except REJECT:
                pass
            except AttributeError:
                if kind != 'operator':
                    raise
            else:
                ctx.fail(f'{tag} | invalid value accepted on assignment',
                         f'{inv[name]!r}')
            ctx.check(fp(reg) == self.shadow,
                      f'{tag} | rejected assignment changed the object')
            self.last_rejected_field = param
        elif kind_op == 'valid':
            val = valid_values(kind)
            if not val or kind == 'operator':
                return
            name = sorted(val)[op[2] % len(val)]
            value = copy.deepcopy(val[name])
            tag = f'{cls}.{param} <- {kind}:{name} (assign)'
            if would_break_order(reg, param, value) and not (
                    len(op) > 3 and op[3] == 'force'):
                ctx.count('excluded_known_annulus_cross_field')
                return
            try:
                setattr(reg, param, value)
            except ValueError:
                ctx.check(fp(reg) == self.shadow,
                          f'{tag} | refused assignment changed the object')
                return
            got = getattr(reg, param)
            if param in ('meta', 'visual'):
                ctx.check(dict(got) == dict(value),
                          f'{tag} | accepted value does not read back')
            else:
                ctx.check(fp(got) == fp(value),
                          f'{tag} | accepted value does not read back unchanged')
            ctx.check(annulus_ok(reg),
                      f'{cls} | annulus ordering violated after an accepted '
                      f'assignment to {param}',
                      repr(reg))
            self._accepted(param)
        elif kind_op == 'delete':
            if param in ('meta', 'visual', 'text'):
                return
            try:
                delattr(reg, param)
            except AttributeError:
                pass
            else:
                ctx.fail(f'{cls}.{param} | shape parameter can be deleted')
            ctx.check(fp(reg) == self.shadow,
                      f'{cls}.{param} | refused deletion changed the object')
        elif kind_op == 'meta_invalid':
            _, which, entry, badi, pos = op
            Cls = R.RegionMeta if which == 'meta' else R.RegionVisual
            pool = META_INVALID_KEYS if which == 'meta' else VIS_INVALID_KEYS
            bad = pool[badi % len(pool)]
            good = [('text', 'T'), ('tag', ['x'])] if which == 'meta' else \
                [('color', 'blue'), ('linewidth', 5)]
            items = list(good)
            items.insert(pos % 3, (bad, 'BAD'))
            obj = getattr(reg, which)
            tag = f'{which}.{entry} key={bad!r}'
            try:
                if entry == 'setitem':
                    obj[bad] = 'BAD'
                elif entry == 'update_mixed_dict':
                    obj.update(dict(items))
                elif entry == 'update_mixed_pairs':
                    obj.update(items)
                elif entry == 'setdefault':
                    obj.setdefault(bad, 'BAD')
                elif entry == 'ior':
                    obj |= dict(items)
                elif entry == 'assign_dict':
                    setattr(reg, which, dict(items))
            except REJECT:
                pass
            else:
                ctx.fail(f'{tag} | key outside the vocabulary accepted',
                         f'{dict(getattr(reg, which))!r}')
            ctx.check(fp(reg) == self.shadow,
                      f'{tag} | rejected operation changed the object',
                      f'{dict(getattr(reg, which))!r}')
            self.last_rejected_field = which
        elif kind_op == 'meta_valid':
            _, which, k = op
            obj = getattr(reg, which)
            if which == 'meta':
                key, val = [('text', 'new'), ('tag', ['p', 'q']),
                            ('include', False), ('label', 'L2')][k % 4]
            else:
                key, val = [('color', 'cyan'), ('linewidth', 4),
                            ('fontsize', 14), ('symbol', '+')][k % 4]
            if k % 2:
                obj[key] = val
            else:
                obj.update({key: val})
            ctx.check(obj[key] == val, f'{which}[{key!r}] | accepted value does '
                      'not read back')
            self._accepted(which)


RELATIONS = [Catalogue(), ValidReadback(), MetaOps(), Containers(), Machine17()]
