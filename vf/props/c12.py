"""C12 - FITS region tables round-trip every supported pixel region."""
import os
import shutil
import tempfile
import warnings

import numpy as np
from hypothesis import strategies as st

from vf import spec as S
from vf.gen import regions as G
from vf.gen import sky as GS
from vf.runner import HERE, Relation

LEVEL = 'exploration'
RULE = ('C12.roundtrip: Hypothesis draws lists of 1-8 FITS-representable pixel '
        'regions (point, circle, ellipse, circular and elliptical annulus, '
        'rotated box, polygon with 3-10 vertices, regular polygon) mixed so '
        'that columns need padding, include in {absent, True, False, 0, 1}, '
        'component in {absent, ints, partially present}, through the in-memory '
        'table and through a file on disk; optionally sky regions / line / '
        'text / rectangle annulus / compound members that must be skipped. '
        'Oracles: same classes, geometry identical (floats exactly, angles to '
        '8 eps after the column\'s unit unification), exclude flag, component '
        'numbers kept where given and fresh + pairwise distinct otherwise, '
        'parse(ser(P1)) == P1, parsed regions that are then EDITED (include '
        'flipped / deleted, component deleted / set, centre moved, radius '
        'set) serialise as what they now are, file == in-memory, skipped '
        'members warned and '
        'the remaining rows equal to the table of the list without them. '
        'C12.read_forms: hand-built tables in box / rectangle / rotrectangle / '
        '!-prefixed notation. Non-trivial: >= 2 different shapes with '
        'different column widths, or an excluded region, or partially present '
        'components.')
ASSUMPTIONS = [
    'all polygons of one list have the same number of vertices (the widest '
    'row): a narrower polygon is padded with (0, 0) vertices, a listed known '
    'finding that is probed separately',
]


def fits_regions(nverts):
    sz = G.sizes(1e-2, 1e4)
    poly = G.polygon(sz, 'any', False, 10).map(
        lambda r: _fix_verts(r, nverts))
    regp = G.regular_polygon(sz, 'any', False, 10).map(
        lambda r: dict(r, nvertices=nverts))

    # polygons with a vertex at the pixel origin (0, 0) - the value columns
    # are padded with - as first, middle, last or last-two vertices
    def origin_poly(t):
        r, where = t
        r = _fix_verts(r, nverts)
        vx, vy = [list(v) for v in r['vertices']]
        for i in {'first': [0], 'middle': [nverts // 2], 'last': [nverts - 1],
                  'last2': [nverts - 1, max(nverts - 2, 0)]}[where]:
            if where == 'last2' and i == nverts - 2:
                vx[i], vy[i] = 0.0, 5.0          # (0, y): only x is zero
            else:
                vx[i], vy[i] = 0.0, 0.0
        return dict(r, vertices=[vx, vy], shape_kind='through-origin')
    opoly = st.tuples(G.polygon(G.sizes(1, 100), 'near', False, 10),
                      st.sampled_from(['first', 'middle', 'last', 'last',
                                       'last2'])).map(origin_poly)
    return st.one_of(opoly, G.point('any', False), G.circle(sz, 'any', False),
                     G.ellipse(sz, 'any', False),
                     G.circle_annulus(sz, 'any', False),
                     G.asym_annulus('EllipseAnnulusPixelRegion', sz, 'any', False),
                     G.rectangle(sz, 'any', False), poly, regp)


def _fix_verts(r, n):
    vx, vy = r['vertices']
    k = len(vx)
    vx = [vx[i % k] + 0.37 * (i // k) for i in range(n)]
    vy = [vy[i % k] - 0.21 * (i // k) for i in range(n)]
    r = dict(r, vertices=[vx, vy])
    r.pop('origin', None)
    return r


def unsupported():
    sz = G.sizes(1, 50)
    return st.one_of(
        G.line('near', False), G.text('near', False),
        G.asym_annulus('RectangleAnnulusPixelRegion', sz, 'near', False),
        G.compound(G.circle(sz, 'near', False), 1, False),
        GS.circle(GS.angsizes(1, 100), meta=False),
        GS.polygon(meta=False))


@st.composite
def case(draw):
    nverts = draw(st.integers(3, 10))
    regs = draw(st.lists(fits_regions(nverts), min_size=1, max_size=8))
    out = []
    comp_mode = draw(st.sampled_from(['absent', 'absent', 'all', 'partial']))
    used = set()
    for r in regs:
        meta = {}
        inc = draw(st.sampled_from(['absent', 'absent', True, False, 0, 1]))
        if inc != 'absent':
            meta['include'] = inc
        if comp_mode == 'all' or (comp_mode == 'partial' and draw(st.booleans())):
            c = draw(st.one_of(st.integers(0, 40), st.sampled_from([0, 0, 1])))
            meta['component'] = c
        out.append(dict(r, meta=meta))
    bad = draw(st.lists(unsupported(), max_size=2))
    pos = draw(st.lists(st.integers(0, 8), min_size=2, max_size=2))
    return {'regions': out, 'bad': bad, 'pos': pos,
            'edits': draw(st.lists(st.integers(0, 6), min_size=1, max_size=8)),
            'via_file': draw(st.booleans()),
            'ext': draw(st.sampled_from(['.fits', '.fit', '.fts']))}


def cmp_region(ctx, tag, A, B):
    import astropy.units as u
    from regions import PixCoord
    for par in A._params:
        va, vb = getattr(A, par), getattr(B, par)
        if isinstance(va, PixCoord):
            xa, ya = np.atleast_1d(np.asarray(va.x, float)), np.atleast_1d(
                np.asarray(va.y, float))
            xb, yb = np.atleast_1d(np.asarray(vb.x, float)), np.atleast_1d(
                np.asarray(vb.y, float))
            ctx.check(xa.shape == xb.shape and np.array_equal(xa, xb)
                      and np.array_equal(ya, yb),
                      f'{tag} | {par} not identical after the round trip',
                      lambda: f'{(xa, ya)} -> {(xb, yb)}')
            if va.isscalar:
                ctx.check(vb.isscalar, f'{tag} | scalar {par} becomes an array')
        elif isinstance(va, u.Quantity):
            a, b = va.to_value(u.deg), vb.to_value(u.deg)
            ctx.check(abs(a - b) <= 8 * 2.0 ** -52 * abs(a),
                      f'{tag} | angle changes in the round trip',
                      f'{va!r} -> {vb!r}')
        else:
            ctx.check(float(va) == float(vb),
                      f'{tag} | {par} not identical after the round trip',
                      f'{va!r} -> {vb!r}')


class RoundTrip(Relation):
    name = 'C12.roundtrip'
    examples = {'quick': 250, 'thorough': 3000}
    shards = {'quick': 8, 'thorough': 16}

    def strategy(self, tier):
        return case()

    def check(self, sp, ctx):
        from astropy.table import QTable
        from astropy.utils.exceptions import AstropyUserWarning
        from regions import Regions
        specs = sp['regions']
        regs = [S.build(r) for r in specs]
        mixed = list(regs)
        bad = [S.build(b) for b in sp['bad']]
        for b, pos in zip(bad, sp['pos']):
            mixed.insert(min(pos, len(mixed)), b)
        with warnings.catch_warnings(record=True) as rec:
            warnings.simplefilter('always')
            table = Regions(mixed).serialize(format='fits')
        ctx.label('n:%d' % len(regs), 'file' if sp['via_file'] else 'memory',
                  *sorted({type(r).__name__ for r in regs}))
        if bad:
            ctx.check(any(issubclass(w.category, AstropyUserWarning)
                          for w in rec),
                      'skip | unsupported member skipped without a warning',
                      ', '.join(type(b).__name__ for b in bad))
            clean = Regions(regs).serialize(format='fits')
            ctx.check(_table_equal(table, clean),
                      'skip | an unsupported member alters the rows of the '
                      'other regions', ', '.join(type(b).__name__ for b in bad))
        ctx.check(isinstance(table, QTable) and len(table) == len(regs),
                  'table | wrong number of rows',
                  f'{len(table)} rows for {len(regs)} regions')
        if sp['via_file']:
            d = tempfile.mkdtemp(prefix='c12-', dir=_scratch())
            try:
                path = os.path.join(d, 'r' + sp['ext'])
                with warnings.catch_warnings():
                    warnings.simplefilter('ignore')
                    Regions(mixed).write(path, format='fits')
                    P1 = Regions.read(path, format='fits')
                    P1b = Regions.read(path)
                ctx.check(len(P1b) == len(P1) and all(a == b for a, b in
                                                      zip(P1, P1b)),
                          'file | format inferred from the extension reads '
                          'differently')
            finally:
                shutil.rmtree(d, ignore_errors=True)
            Pm = Regions.parse(table, format='fits')
            ctx.check(len(Pm) == len(P1) and all(a == b for a, b in zip(P1, Pm)),
                      'file | regions read from disk differ from parsing the '
                      'in-memory table')
        else:
            P1 = Regions.parse(table, format='fits')
        # parsing reads the table: it stays as it was, and parsing it again
        # gives the same regions
        ctx.check(_table_equal(table, Regions(regs).serialize(format='fits')),
                  'parse | parsing modifies the table it is given',
                  lambda: f'{list(table["SHAPE"])}')
        Pagain = Regions.parse(table, format='fits')
        ctx.check(len(Pagain) == len(P1) and all(a == b for a, b in
                                                 zip(P1, Pagain)),
                  'parse | parsing the same table a second time gives '
                  'different regions',
                  lambda: next((f'{a!r} vs {b!r}' for a, b in zip(P1, Pagain)
                                if not a == b), 'count'))
        ctx.check(len(P1) == len(regs), 'count | number of regions changes',
                  f'{len(regs)} -> {len(P1)}')
        comps_given = [(r.get('meta') or {}).get('component') for r in specs]
        comps_got = []
        nt = len({len(np.atleast_1d(getattr(r, 'vertices', r.center if hasattr(
            r, 'center') else None).x if hasattr(r, 'vertices') else [0]))
            for r in regs}) > 1
        for A, B, rs in zip(regs, P1, specs):
            cls = type(A).__name__
            want = cls.replace('RegularPolygon', 'Polygon')
            inc = (rs.get('meta') or {}).get('include', 'absent')
            tag = f'{want} include={inc!r}'
            ctx.check(type(B).__name__ == want, f'{tag} | class changes',
                      f'-> {type(B).__name__}')
            if cls == 'RegularPolygonPixelRegion':
                A = A.to_polygon()
            cmp_region(ctx, tag, A, B)
            want_inc = True if inc == 'absent' else bool(inc)
            ctx.check(bool(B.meta.get('include', True)) == want_inc,
                      f'{tag} components={"given" if any(c is not None for c in comps_given) else "absent"} '
                      '| exclude flag changes in the round trip',
                      f'{inc!r} -> {B.meta.get("include", "absent")!r}')
            comps_got.append(B.meta.get('component'))
            if not want_inc:
                nt = True
        if any(c is not None for c in comps_given):
            for g, b in zip(comps_given, comps_got):
                if g is not None:
                    ctx.check(b == g, 'component | given number not preserved',
                              f'{comps_given} -> {comps_got}')
            fresh = [b for g, b in zip(comps_given, comps_got) if g is None]
            ctx.check(all(isinstance(b, (int, np.integer)) for b in fresh)
                      and len(set(fresh)) == len(fresh)
                      and not (set(fresh) & {g for g in comps_given
                                             if g is not None}),
                      'component | fresh numbers are not distinct integers',
                      f'{comps_given} -> {comps_got}')
            if None in comps_given:
                nt = True
        # fixed point
        t2 = P1.serialize(format='fits')
        P2 = Regions.parse(t2, format='fits')
        ctx.check(len(P2) == len(P1) and all(a == b for a, b in zip(P1, P2)),
                  'fixed point | parse(serialize(P1)) != P1',
                  lambda: next((f'{a!r} {dict(a.meta)} vs {b!r} {dict(b.meta)}'
                                for a, b in zip(P1, P2) if not a == b), ''))
        # parsed regions are ordinary regions: edited, they serialise as
        # what they NOW are
        E = list(Regions.parse(t2, format='fits'))
        kinds = sp.get('edits') or [0]
        done = [lab for i, r in enumerate(E)
                for lab in [_edit_parsed(r, kinds[i % len(kinds)], i)] if lab]
        if done:
            ctx.label(*{'edit:' + d for d in done})
            PE = Regions.parse(Regions(E).serialize(format='fits'),
                               format='fits')
            ctx.check(len(PE) == len(E), 'edited | count changes')
            given = [r.meta.get('component') for r in E]
            got = [r.meta.get('component') for r in PE]
            for A, B in zip(E, PE):
                nm = type(A).__name__
                ctx.check(type(A) is type(B), f'{nm} | edited: class changes')
                cmp_region(ctx, f'edited {nm}', A, B)
                ctx.check(bool(A.meta.get('include', True))
                          == bool(B.meta.get('include', True)),
                          f'{nm} | edited: exclude flag of an edited parsed '
                          'region is not the one it now has',
                          f"{A.meta.get('include', 'absent')!r} -> "
                          f"{B.meta.get('include', 'absent')!r}")
            if any(g is not None for g in given):
                ctx.check(all(b == g for g, b in zip(given, got)
                              if g is not None),
                          'edited | component number of an edited parsed '
                          'region not preserved', f'{given} -> {got}')
                fresh = [b for g, b in zip(given, got) if g is None]
                ctx.check(all(isinstance(b, (int, np.integer)) for b in fresh)
                          and len(set(fresh)) == len(fresh)
                          and not (set(fresh) & {g for g in given
                                                 if g is not None}),
                          'edited | fresh component numbers are not distinct '
                          'integers', f'{given} -> {got}')
        ctx.nontrivial(nt)


def _edit_parsed(reg, kind, i):
    """Edit a parsed FITS region in place; returns a label or None."""
    m = reg.meta
    if kind == 1:
        m['include'] = not bool(m.get('include', True))
        return 'flip include'
    if kind == 2 and 'include' in m:
        del m['include']
        return 'del include'
    if kind == 3 and 'component' in m:
        del m['component']
        return 'del component'
    if kind == 4:
        m['component'] = 100 + i
        return 'set component'
    if kind == 5 and hasattr(reg, 'center'):
        from regions import PixCoord
        reg.center = PixCoord(reg.center.x + 2.5, reg.center.y - 1.25)
        return 'move center'
    if kind == 6 and hasattr(reg, 'radius'):
        reg.radius = reg.radius * 1.5 + 0.25
        return 'set radius'
    return None


def _scratch():
    d = os.path.join(HERE, '.scratch')
    os.makedirs(d, exist_ok=True)
    return d


def _table_equal(a, b):
    if a.colnames != b.colnames or len(a) != len(b):
        return False
    for c in a.colnames:
        x, y = np.asarray(a[c]), np.asarray(b[c])
        if x.shape != y.shape or not np.array_equal(x, y):
            return False
        if str(getattr(a[c], 'unit', None)) != str(getattr(b[c], 'unit', None)):
            return False
    return True


class ReadForms(Relation):
    """Tables in the other accepted FITS notations."""
    name = 'C12.read_forms'
    examples = {'quick': 200, 'thorough': 2000}
    shards = {'quick': 4, 'thorough': 8}

    def strategy(self, tier):
        c = st.integers(-4000, 4000).map(lambda k: k / 8.0)
        s = st.integers(1, 800).map(lambda k: k / 8.0)
        row = st.fixed_dictionaries({
            'shape': st.sampled_from(['box', 'rotbox', 'rectangle',
                                      'rotrectangle', 'circle', 'point',
                                      'ellipse', 'annulus']),
            'excl': st.booleans(), 'case': st.sampled_from(['lower', 'upper']),
            'x': c, 'y': c, 'a': s, 'b': s,
            'ang': st.integers(-720, 720).map(float)})
        return st.fixed_dictionaries({
            'rows': st.lists(row, min_size=1, max_size=5),
            'component': st.booleans(),
            # width of the X / Y vector columns: 2, or wider as in a table
            # that also holds a polygon (the unused elements are 0)
            'xywidth': st.sampled_from([2, 2, 3, 5, 8])})

    def check(self, sp, ctx):
        import astropy.units as u
        from astropy.table import QTable
        from regions import Regions
        rows = sp['rows']
        X, Y, R, A, SH = [], [], [], [], []
        want = []
        for r in rows:
            sh = r['shape']
            x, y, a, b, ang = r['x'], r['y'], r['a'], r['b'], r['ang']
            if sh in ('rectangle', 'rotrectangle'):
                X.append([x - a / 2, x + a / 2])
                Y.append([y - b / 2, y + b / 2])
                R.append([0.0, 0.0])
                want.append(('RectanglePixelRegion', x, y,
                             {'width': a, 'height': b},
                             ang if sh == 'rotrectangle' else 0.0))
            else:
                X.append([x, 0.0])
                Y.append([y, 0.0])
                if sh in ('box', 'rotbox'):
                    R.append([a, b])
                    want.append(('RectanglePixelRegion', x, y,
                                 {'width': a, 'height': b},
                                 ang if sh == 'rotbox' else 0.0))
                elif sh == 'circle':
                    R.append([a, 0.0])
                    want.append(('CirclePixelRegion', x, y, {'radius': a}, None))
                elif sh == 'point':
                    R.append([0.0, 0.0])
                    want.append(('PointPixelRegion', x, y, {}, None))
                elif sh == 'ellipse':
                    R.append([a, b])
                    want.append(('EllipsePixelRegion', x, y,
                                 {'width': 2 * a, 'height': 2 * b}, ang))
                else:
                    lo, hi = sorted([a, b + a])
                    R.append([lo, hi])
                    want.append(('CircleAnnulusPixelRegion', x, y,
                                 {'inner_radius': lo, 'outer_radius': hi}, None))
            A.append(ang)
            name = ('!' if r['excl'] else '') + sh
            SH.append(name.upper() if r['case'] == 'upper' else name)
        t = QTable()
        t['SHAPE'] = SH
        W = sp.get('xywidth', 2)
        pad = [0.0] * (W - 2)
        t['X'] = np.array([v + pad for v in X]) * u.pix
        t['Y'] = np.array([v + pad for v in Y]) * u.pix
        t['R'] = np.array(R) * u.pix
        t['ROTANG'] = np.array(A) * u.deg
        if sp['component']:
            t['COMPONENT'] = np.arange(len(rows)) + 3
        regs = list(Regions.parse(t, format='fits'))
        ctx.label(*{r['shape'] for r in rows}, 'xywidth:%d' % W)
        ctx.check(len(regs) == len(rows), 'read | wrong number of regions')
        for r, w, reg, i in zip(rows, want, regs, range(len(rows))):
            tag = f"{r['shape']}{' excluded' if r['excl'] else ''}"
            ctx.check(type(reg).__name__ == w[0], f'{tag} | wrong class',
                      type(reg).__name__)
            ctx.check(reg.center.x == w[1] and reg.center.y == w[2],
                      f'{tag} | wrong centre',
                      f'{(reg.center.x, reg.center.y)} vs {w[1:3]}')
            for k, v in w[3].items():
                ctx.check(float(getattr(reg, k)) == v, f'{tag} | wrong {k}',
                          f'{getattr(reg, k)!r} vs {v!r}')
            if w[4] is not None and w[4] != 0.0 or r['shape'] in (
                    'rotbox', 'rotrectangle', 'ellipse'):
                ctx.check(abs(reg.angle.to_value(u.deg) - (w[4] or 0.0)) < 1e-12,
                          f'{tag} | wrong angle',
                          f'{reg.angle!r} vs {w[4]!r}')
            ctx.check(bool(reg.meta.get('include', True)) == (not r['excl']),
                      f"{tag} component={'given' if sp['component'] else 'absent'}"
                      ' | leading ! does not exclude',
                      f'{dict(reg.meta)}')
            if sp['component']:
                ctx.check(reg.meta.get('component') == i + 3,
                          f'{tag} | component not read')
        ctx.nontrivial(any(r['excl'] for r in rows) or len({r['shape'] for r in
                                                            rows}) > 1)


RELATIONS = [RoundTrip(), ReadForms()]
