"""C02 - centre and subpixel masks are the sampled membership function."""
import numpy as np
from hypothesis import strategies as st

from vf import spec as S
from vf.gen import regions as G
from vf.ref import geometry as ref
from vf.runner import Relation

LEVEL = 'exploration'
RULE = ('Hypothesis draws a maskable region spec (circle, ellipse, rectangle, '
        'polygon incl. self-intersecting and half-pixel-lattice polygons, '
        'regular polygon, the three annuli, and/or/xor compounds to depth 3; '
        'sizes 1e-2..60 px quick / ..300 px thorough; centres generic, on '
        'pixel centres/edges/corners (k/8 lattice) and far from the origin '
        '(to 1e6)) and subpixel counts in 1..12. Oracle: the reference '
        'membership of the include-stripped region evaluated at every '
        'sub-sample centre ix + (k+1/2)/n - 1/2; samples inside the float '
        'rounding band widen the allowed interval [lo, hi] for n^2*value. '
        'Non-trivial: the mask has a 0 and a non-0 pixel and (box not square '
        'or shape not x<->y symmetric); for subpixel masks additionally a '
        'pixel with a fraction strictly between 0 and 1.')
ASSUMPTIONS = [
    'sample positions are computed by the kernels relative to the region '
    'centre: a position uncertainty of 16 eps (|bbox corner| + 1) is added '
    'to the rounding band',
    'masks larger than 1.5e6 sub-samples are checked on a band of rows '
    'chosen by the case spec',
]
CAP = 1_500_000


def _sizes(tier):
    return G.sizes(1e-2, 60.0 if tier == 'quick' else 300.0)


def _regions(tier):
    sz = _sizes(tier)
    small = G.sizes(0.3, 25.0)
    leaf = G.maskable(sz, max_ratio=30.0)
    near_leaf = G.maskable(small, cmode='near', max_ratio=8.0)
    # a few large grids (more than 256 x 256 pixels) in every tier: what
    # to_mask does for big masks is part of it (rows are sub-sampled, CAP)
    large = G.maskable(G.sizes(140.0, 320.0), cmode='near', max_ratio=6.0)
    usual = st.one_of(leaf, leaf, leaf, G.grid_polygon(),
                      G.compound(near_leaf, max_depth=3))
    # (rare in the quick tier - each costs seconds; the thorough tier's sizes
    # reach 300 px anyway)
    return st.integers(0, 399 if tier == 'quick' else 99).flatmap(
        lambda k: large if k == 0 else usual)


def _exact_rectangle(rs):
    if rs.get('angle') is not None and float(rs['angle'][0]) != 0.0:
        return False
    vals = list(rs['center']) + [rs['width'], rs['height']]
    return all(abs(float(v)) < 2 ** 20 and (float(v) * 8).is_integer()
               for v in vals)


def sample_reference(rs, bbox, n, rows):
    """lo/hi sample counts per pixel for rows [r0, r1) of the mask."""
    ixmin, ixmax, iymin, iymax = bbox
    r0, r1 = rows
    k = (np.arange(n) + 0.5) / n - 0.5
    xs = (np.arange(ixmin, ixmax)[:, None] + k[None, :]).reshape(-1)
    ys = (np.arange(iymin + r0, iymin + r1)[:, None] + k[None, :]).reshape(-1)
    X, Y = np.meshgrid(xs, ys)
    scale = max(abs(ixmin), abs(ixmax), abs(iymin), abs(iymax)) + 1.0
    pos_err = 16 * ref.EPS * scale
    ins, dfn = ref.stripped_ref(rs, X, Y, pos_err)
    ny, nx = r1 - r0, ixmax - ixmin
    lo = (ins & dfn).reshape(ny, n, nx, n).sum(axis=(1, 3))
    hi = (ins | ~dfn).reshape(ny, n, nx, n).sum(axis=(1, 3))
    amb = int((~dfn).sum())
    return lo, hi, amb


def _symmetric(rs):
    cls = rs['cls']
    if cls in ('CirclePixelRegion', 'CircleAnnulusPixelRegion'):
        return True
    return False


class Masks(Relation):
    name = 'C02.masks'
    examples = {'quick': 800, 'thorough': 5000}
    shards = {'quick': 8, 'thorough': 16}

    def strategy(self, tier):
        return st.fixed_dictionaries({
            'subpixels': st.lists(st.integers(1, 12), min_size=1, max_size=3,
                                  unique=True),
            'win': st.floats(0, 1),
            'region': _regions(tier),
        })

    def check(self, spec, ctx):
        rs = spec['region']
        cls = rs['cls']
        reg = S.build(rs)
        bb = reg.bounding_box
        box = (bb.ixmin, bb.ixmax, bb.iymin, bb.iymax)
        ny, nx = bb.shape
        ctx.label(cls, G.angle_family(rs))
        if ny * nx > 700 * 700:
            ctx.count('outside_domain_huge_mask')
            return
        compound_like = cls == 'CompoundPixelRegion' or 'Annulus' in cls
        modes = [('center', None)]
        if not compound_like:
            modes += [('subpixels', n) for n in spec['subpixels']]
        # grids of more than 256 x 256 pixels: centre mode and ONE small
        # sub-sampling factor, no repeated calls (seconds per mask otherwise)
        large_grid = ny * nx > 256 * 256
        if large_grid:
            ctx.label('large-grid')
            modes = modes[:1] + [(m, min(n, 3)) for m, n in modes[1:2]]
        center_data = None
        nt_any = False
        from vf.fingerprint import fp
        fp_reg = fp(reg)
        for mode, n in modes:
            if mode == 'center':
                mask = reg.to_mask('center')
                nn = 1
            else:
                mask = reg.to_mask('subpixels', n)
                nn = n
            tag = f'{cls} mode={mode}'
            data = np.asarray(mask.data)
            ctx.check(fp(reg) == fp_reg, f'{tag} | to_mask modifies the region')
            # a returned mask is the caller's to edit: doing so must not
            # reach the mask that the next call returns
            keep = data.copy()
            again = mask if large_grid else (
                reg.to_mask(mode) if mode == 'center' else reg.to_mask(mode, n))
            ctx.check(np.array_equal(np.asarray(again.data), data),
                      f'{tag} | a second to_mask call gives a different mask')
            if (not large_grid and again.data.size
                    and again.data.flags.writeable):
                again.data[...] = -7.25
                third = reg.to_mask(mode) if mode == 'center' else reg.to_mask(
                    mode, n)
                ctx.check(np.array_equal(np.asarray(third.data), keep)
                          and np.array_equal(data, keep),
                          f'{tag} | editing a returned mask changes another '
                          'mask of the same region')
            ctx.check(data.shape == (ny, nx),
                      f'{tag} | mask shape differs from bounding-box shape',
                      f'{data.shape} vs {(ny, nx)}')
            mb = mask.bbox
            ctx.check((mb.ixmin, mb.ixmax, mb.iymin, mb.iymax) == box,
                      f'{tag} | mask bbox differs from region bounding box',
                      f'{mb} vs {bb}')
            ctx.check(np.all(np.isfinite(data)),
                      f'{tag} | non-finite mask value')
            if (mode == 'center' and cls == 'RectanglePixelRegion'
                    and _exact_rectangle(rs)):
                # an axis-parallel rectangle with dyadic parameters: every
                # number involved is exact, so the mask equals the library's
                # own membership at EVERY pixel centre - also where a centre
                # lies exactly on an edge (strictly outside)
                from regions import PixCoord
                gy, gx = np.mgrid[box[2]:box[3], box[0]:box[1]]
                inc = bool((rs.get('meta') or {}).get('include', True))
                member = np.asarray(reg.contains(PixCoord(gx, gy)))
                if not inc:
                    member = ~member
                ctx.check(np.array_equal(data != 0, member),
                          f'{tag} | exact geometry: centre mask differs from '
                          'contains() at the pixel centres',
                          f'{int(((data != 0) != member).sum())} pixels')
                ctx.count('exact_rectangles')
            if mode == 'center':
                center_data = data
                ctx.check(np.all((data == 0) | (data == 1)),
                          f'{tag} | centre mask holds values other than 0/1',
                          str(np.unique(data)[:5]))
            # window of rows when the sample lattice would be too large
            per_row = nx * nn * nn
            h = max(1, min(ny, CAP // max(per_row, 1)))
            r0 = int(spec['win'] * (ny - h)) if ny > h else 0
            if per_row > CAP:
                ctx.count('outside_domain_row_too_long')
                continue
            lo, hi, amb = sample_reference(rs, box, nn, (r0, r0 + h))
            if amb:
                ctx.count('ambiguous_samples', amb)
            ctx.count('pixels', h * nx)
            got = data[r0:r0 + h] * (nn * nn)
            bad = (got < lo - 1e-6) | (got > hi + 1e-6)
            if mode != 'center':
                # values must be k/n^2
                bad |= np.abs(got - np.round(got)) > 1e-6
            if bad.any():
                j, i = (int(v) for v in np.argwhere(bad)[0])
                ctx.fail(f'{tag} | mask value is not the sampled membership',
                         f'n={nn} pixel (ix={box[0] + i}, iy={box[2] + r0 + j}) '
                         f'value*n^2={got[j, i]!r} allowed [{lo[j, i]}, '
                         f'{hi[j, i]}]; {int(bad.sum())} of {bad.size} pixels')
            if mode == 'subpixels' and nn == 1:
                ctx.check(np.array_equal(data, center_data),
                          f'{cls} | subpixels=1 differs from center mode')
            has01 = bool((data == 0).any() and (data != 0).any())
            asym = (ny != nx) or not _symmetric(rs)
            frac = mode == 'center' or bool(((data > 0) & (data < 1)).any())
            nt_any = nt_any or (has01 and asym and frac)
        if not compound_like and 1 not in spec['subpixels']:
            d1 = np.asarray(reg.to_mask('subpixels', 1).data)
            ctx.check(np.array_equal(d1, center_data),
                      f'{cls} | subpixels=1 differs from center mode')
        ctx.nontrivial(nt_any)


class Modes(Relation):
    """Unsupported shape/mode combinations raise NotImplementedError; bad
    mode strings / subpixel counts raise ValueError."""
    name = 'C02.modes'
    examples = {'quick': 150, 'thorough': 1500}
    shards = {'quick': 2, 'thorough': 8}

    def strategy(self, tier):
        sz = G.sizes(0.3, 20.0)
        leaf = G.simple_pixel(sz, cmode='near')
        mask_leaf = G.maskable(sz, cmode='near', max_ratio=8.0)
        return st.fixed_dictionaries({
            'mode': st.sampled_from(['center', 'exact', 'subpixels', 'bogus',
                                     'Center', '']),
            'subpixels': st.sampled_from([1, 5, 0, -1, -5, 2.5, 3.0, '3',
                                          None]),
            'region': st.one_of(leaf, G.compound(mask_leaf, max_depth=2)),
        })

    def check(self, spec, ctx):
        rs = spec['region']
        cls = rs['cls']
        mode, sub = spec['mode'], spec['subpixels']
        if mode == 'exact' and sub not in (1, 5, None):
            # the subpixel count is irrelevant in exact mode; a negative one
            # would only matter to a kernel that wrongly sub-samples (and
            # would then loop ~2^32 times)
            sub = 5
        if mode == 'center' and sub not in (1, 5, None):
            # likewise for centre mode (a kernel handed -1 loops ~2^32 times)
            sub = 5
        reg = S.build(rs)
        ctx.label(cls, f'mode:{mode}', f'sub:{sub!r}')
        valid_mode = mode in ('center', 'exact', 'subpixels')
        valid_sub = sub is None or (isinstance(sub, int) and sub > 0)
        never = cls in ('PointPixelRegion', 'LinePixelRegion',
                        'TextPixelRegion')
        compound_like = cls == 'CompoundPixelRegion' or 'Annulus' in cls
        no_exact = cls in ('RectanglePixelRegion', 'PolygonPixelRegion',
                           'RegularPolygonPixelRegion')
        if never:
            want = (NotImplementedError,)
        elif compound_like:
            # any non-centre mode is unsupported; an invalid mode string may
            # be rejected either way
            want = None if mode == 'center' else (
                (NotImplementedError,) if valid_mode
                else (NotImplementedError, ValueError))
        elif not valid_mode:
            want = (ValueError,)
        elif mode == 'subpixels' and not valid_sub:
            want = (ValueError,)
        elif mode == 'exact' and no_exact:
            want = (NotImplementedError,)
        else:
            want = None
        tag = f'{cls} mode={mode!r} subpixels={sub!r}'
        try:
            if sub is None:
                m = reg.to_mask(mode)
            else:
                m = reg.to_mask(mode, sub)
        except (NotImplementedError, ValueError, TypeError) as e:
            if want is None:
                ctx.fail(f'{tag} | supported combination raises '
                         f'{type(e).__name__}', str(e))
            if not isinstance(e, want):
                ctx.fail(f'{tag} | raises {type(e).__name__} instead of '
                         f'{"/".join(w.__name__ for w in want)}', str(e))
        else:
            if want is not None:
                ctx.fail(f'{tag} | returns a mask instead of raising '
                         f'{"/".join(w.__name__ for w in want)}',
                         f'{type(m).__name__}')
            if mode == 'center':
                # 'center' is 'center' whatever subpixels= says
                plain = reg.to_mask('center')
                d = np.asarray(m.data)
                ctx.check(np.array_equal(d, np.asarray(plain.data))
                          and np.all((d == 0) | (d == 1)),
                          f'{cls} mode=\'center\' | a subpixels argument '
                          'changes the centre mask',
                          f'subpixels={sub!r}: {int((d != np.asarray(plain.data)).sum())} '
                          'pixels differ')
        ctx.nontrivial(want is not None)


RELATIONS = [Masks(), Modes()]
