"""The operation vocabulary of the history machine (C13): every operation is a
pure function of live argument objects and JSON parameters, so that it can be
run on the shared pool in-process and, from the argument SPECS, as the first
operation of a fresh interpreter."""
import os
import shutil
import tempfile
import warnings

import numpy as np

from vf import spec as S
from vf.fingerprint import fp

HERE = os.path.dirname(os.path.dirname(os.path.abspath(__file__)))

# --------------------------------------------------------------- the pool ---

PIXEL_SPECS = [
    {'cls': 'CirclePixelRegion', 'center': [12.5, 9.25], 'radius': 4.5,
     'meta': {'text': 'c1', 'tag': ['a', 'b', 'a'], 'include': False},
     'visual': {'color': 'red', 'linewidth': 2}},
    {'cls': 'EllipsePixelRegion', 'center': [10.0, 11.0], 'width': 9.0,
     'height': 5.0, 'angle': [33.0, 'deg', 'Quantity'],
     'meta': {'text': 'ell', 'component': 2}, 'visual': {'color': 'blue'}},
    {'cls': 'RectanglePixelRegion', 'center': [8.0, 7.5], 'width': 6.0,
     'height': 3.0, 'angle': [-20.0, 'deg', 'Angle'], 'meta': {'include': 1},
     'visual': {}},
    {'cls': 'PolygonPixelRegion', 'vertices': [[3.0, 14.0, 9.0, 5.5],
                                               [2.0, 4.0, 13.0, 8.0]],
     'meta': {'tag': ['poly']}, 'visual': {'linewidth': 3}},
    {'cls': 'RegularPolygonPixelRegion', 'center': [11.0, 9.0], 'nvertices': 5,
     'radius': 5.0, 'angle': [10.0, 'deg', 'Quantity'], 'meta': {}, 'visual': {}},
    {'cls': 'CircleAnnulusPixelRegion', 'center': [10.0, 10.0],
     'inner_radius': 2.5, 'outer_radius': 6.0, 'meta': {'text': 'ann'},
     'visual': {'color': 'green'}},
    {'cls': 'EllipseAnnulusPixelRegion', 'center': [9.0, 10.0],
     'inner_width': 3.0, 'outer_width': 8.0, 'inner_height': 2.0,
     'outer_height': 5.0, 'angle': [45.0, 'deg', 'Quantity'], 'meta': {},
     'visual': {}},
    {'cls': 'PointPixelRegion', 'center': [4.0, 5.0], 'meta': {'text': 'p'},
     'visual': {'marker': 'x', 'markersize': 9}},
    {'cls': 'LinePixelRegion', 'start': [1.0, 2.0], 'end': [15.0, 11.0],
     'meta': {}, 'visual': {'color': 'cyan'}},
    {'cls': 'TextPixelRegion', 'center': [6.0, 6.0], 'text': 'hello',
     'meta': {}, 'visual': {'rotation': 30}},
    # metadata only CRTF writes, with list values holding Quantities
    {'cls': 'CirclePixelRegion', 'center': [9.5, 12.0], 'radius': 3.0,
     'meta': {'label': "it's", 'corr': ['I', 'Q'], 'frame': 'LSRK',
              'range': [{'__quantity__': [1.42, 'GHz']},
                        {'__quantity__': [1.421, 'GHz']}]},
     'visual': {'color': 'blue', 'linewidth': 2}},
]
SKY_SPECS = [
    {'cls': 'CircleSkyRegion', 'center': {'frame': 'icrs', 'lon': 30.002,
                                          'lat': 10.003},
     'radius': [25.0, 'arcsec'], 'meta': {'text': 's1', 'include': False},
     'visual': {'color': 'red'}},
    {'cls': 'EllipseSkyRegion', 'center': {'frame': 'galactic', 'lon': 160.0,
                                           'lat': -43.0},
     'width': [40.0, 'arcsec'], 'height': [0.3, 'arcmin'],
     'angle': [25.0, 'deg', 'Quantity'], 'meta': {}, 'visual': {}},
    {'cls': 'PolygonSkyRegion', 'vertices': {'frame': 'fk5',
                                             'lon': [30.0, 30.01, 30.004],
                                             'lat': [10.0, 10.002, 10.01]},
     'meta': {'tag': ['t']}, 'visual': {}},
    {'cls': 'RectangleSkyRegion', 'center': {'frame': 'icrs', 'lon': 30.001,
                                             'lat': 10.001},
     'width': [30.0, 'arcsec'], 'height': [12.0, 'arcsec'],
     'angle': [70.0, 'deg', 'Quantity'],
     'meta': {'text': 'box', 'label': 'box', 'corr': ['XX'],
              'range': [{'__quantity__': [100.0, 'km/s']},
                        {'__quantity__': [250.0, 'km/s']}]}, 'visual': {}},
    {'cls': 'TextSkyRegion', 'center': {'frame': 'fk5', 'lon': 30.003,
                                        'lat': 10.002}, 'text': 'sky text',
     'meta': {}, 'visual': {'rotation': 30, 'color': 'cyan'}},
    {'cls': 'CircleAnnulusSkyRegion', 'center': {'frame': 'icrs', 'lon': 30.0,
                                                 'lat': 10.0},
     'inner_radius': [5.0, 'arcsec'], 'outer_radius': [0.3, 'arcmin'],
     'meta': {'include': 0}, 'visual': {}},
    {'cls': 'PointSkyRegion', 'center': {'frame': 'galactic', 'lon': 160.001,
                                         'lat': -43.001},
     'meta': {'text': 'pt'}, 'visual': {'marker': '+'}},
    # a region ON a pole of its frame (where "one arcsecond further north"
    # does not exist); it is 80 deg from the pool's WCS centres, still on the
    # visible side of their projections
    {'cls': 'EllipseSkyRegion', 'center': {'frame': 'icrs', 'lon': 0.0,
                                           'lat': 90.0},
     'width': [40.0, 'arcsec'], 'height': [20.0, 'arcsec'],
     'angle': [30.0, 'deg', 'Quantity'], 'meta': {'text': 'pole'},
     'visual': {}},
]
# sky regions on the far side of the pool's projections (the antipodes of the
# WCS centres): converting them has no answer - what matters is that asking
# leaves no trace
FAR_SPECS = [
    {'cls': 'CircleSkyRegion', 'center': {'frame': 'icrs', 'lon': 210.0,
                                          'lat': -10.0},
     'radius': [20.0, 'arcsec'], 'meta': {}, 'visual': {}},
    {'cls': 'EllipseSkyRegion', 'center': {'frame': 'galactic', 'lon': 340.0,
                                           'lat': 43.0},
     'width': [40.0, 'arcsec'], 'height': [20.0, 'arcsec'],
     'angle': [10.0, 'deg', 'Quantity'], 'meta': {}, 'visual': {}},
]
WCS_SPECS = [
    {'proj': 'TAN', 'frame': 'icrs', 'crval': [30.0, 10.0], 'crpix': [10.0, 10.0],
     'scale': 0.0005, 'rot': 25.0, 'parity': -1},
    {'proj': 'SIN', 'frame': 'fk5', 'crval': [30.0, 10.0], 'crpix': [8.0, 12.0],
     'scale': 0.001, 'rot': -70.0, 'parity': -1},
    {'proj': 'TAN', 'frame': 'galactic', 'crval': [160.0, -43.0],
     'crpix': [10.0, 10.0], 'scale': 0.0008, 'rot': 0.0, 'parity': -1},
]
DS9_BLOBS = [
    '# Region file format: DS9\nglobal color=green\nimage\ncircle(10,10,3) # text={a}\n'
    'polygon(1,1,5,1,3,4)\nfk5\nellipse(30.0,10.0,10",5",30) # tag={x}\n',
    'image; box(5,5,4,2,10); -circle(3,3,1)\npolygon(2,2,8,2,8,8,2,8) # color=red\n'
    'annulus(10,10,2,4,6)\n',
    'galactic\npoint(160,-43) # point=x 12\ntext(160.01,-43) # text={lbl}\n'
    'line(160,-43,160.02,-43.01)\n',
    # sexagesimal vertices in an equatorial frame (ONE polygon: an odd number)
    'fk5\npolygon(2:00:00,+10:00:00,2:00:04,+10:00:00,2:00:02,+10:01:00) '
    '# text={tri} tag={p} tag={q}\ncircle(2:00:01.5,+10:00:30,3")\n',
    # aliases, unit suffixes, multi-radius shapes, a composite, two polygons
    'j2000; ellipse(30d,10d,10",5",20",10",30) # color=cyan\n'
    'icrs\nannulus(30.0,10.0,1\',2\',3\')\nbox(2h,10d,4",2",8",4",15)\n'
    'polygon(30.0d,10.0d,30.01d,10.0d,30.0d,10.01d)\n'
    'polygon(2:00:00,10:00:00,2:00:04,10:00:00,2:00:02,10:01:00)\n',
    '# Region file format: DS9 version 4.1\nglobal color=green dashlist=8 3 '
    'width=1 font="helvetica 10 normal roman" select=1 include=1\n'
    'ecliptic\n-circle(45,5,20") # text="it\'s" width=3 dash=1\n'
    'image\n# text(5,6) text={note} textangle=30\n'
    'point(3,4) # point=diamond 7 color=#0f0\n',
]
CRTF_BLOBS = [
    "#CRTFv0\nglobal coord=J2000, color=blue\ncircle[[30deg, 10deg], 3arcsec], label='x'\n"
    "poly[[30deg, 10deg], [30.01deg, 10deg], [30deg, 10.01deg]]\n",
    "#CRTFv0\ncircle[[10pix, 20pix], 3pix]\n-ellipse[[10pix, 20pix], [4pix, 2pix], 30deg]\n"
    "poly[[1pix, 2pix], [3pix, 4pix], [5pix, 1pix]]\n",
    "#CRTFv0\nann rotbox[[30deg, 10deg], [4arcsec, 2arcsec], 45deg], coord=ICRS, color=red\n",
    "#CRTFv0\nglobal coord=B1950, linewidth=2\n"
    "box[[02:00:00.0, +010.00.00.0], [02:00:04.0, +010.01.00.0]]\n"
    "centerbox[[30deg, 10deg], [6arcsec, 4arcsec]], coord=GALACTIC\n"
    "global color=magenta\n"
    "annulus[[30deg, 10deg], [3arcsec, 6arcsec]], label=\"a, b\"\n",
    "#CRTFv0\nglobal coord=ICRS\nsymbol[[30deg, 10deg], *], symsize=3, color=green\n"
    "text[[30.001deg, 10deg], 'it is'], fontsize=12\n"
    "line[[30deg, 10deg], [30.01deg, 10.01deg]], corr=[I, Q], range=[1GHz, 2GHz]\n"
    "-ellipse[[0.52rad, 0.17rad], [4arcsec, 2arcsec], 0.5rad]\n",
]


ANGLE_UNITS = {'deg': 1.0, 'rad': 0.017453292519943295, 'arcmin': 60.0,
               'hourangle': 1 / 15.0}


def vary(spec, variant):
    """A member of the pool family: the documented pool region moved by
    ``shift`` (eighths of a pixel), resized by ``scale`` and turned by
    ``rot`` degrees, its angle expressed in ``unit``.  (All regions stay
    inside the 20x24 image neighbourhood the pool images cover.)"""
    if not variant:
        return spec
    dx, dy = (v / 8.0 for v in variant.get('shift', (0, 0)))
    f = variant.get('scale', 1.0)
    sp = dict(spec)
    for k in ('center', 'start', 'end'):
        if k in sp and isinstance(sp[k], list):
            sp[k] = [sp[k][0] + dx, sp[k][1] + dy]
    if 'vertices' in sp and isinstance(sp['vertices'], list):
        xs, ys = sp['vertices']
        cx, cy = sum(xs) / len(xs), sum(ys) / len(ys)
        sp['vertices'] = [[cx + (x - cx) * f + dx for x in xs],
                          [cy + (y - cy) * f + dy for y in ys]]
    for k in ('radius', 'width', 'height', 'inner_radius', 'outer_radius',
              'inner_width', 'outer_width', 'inner_height', 'outer_height'):
        if k in sp:
            if isinstance(sp[k], list):       # sky: [value, unit]
                sp[k] = [sp[k][0] * f, sp[k][1]]
            else:
                sp[k] = sp[k] * f
    if 'angle' in sp:
        v, un, kind = sp['angle']
        deg = v / ANGLE_UNITS[un] + variant.get('rot', 0.0)
        un2 = variant.get('unit', un)
        sp['angle'] = [deg * ANGLE_UNITS[un2], un2, kind]
    return sp


def make_pool(variant=None):
    """Fresh live objects; index -> (kind, object, recipe)."""
    from regions import PixCoord, Regions
    pool = {'pix': [S.build(vary(s, variant)) for s in PIXEL_SPECS],
            'sky': [S.build(vary(s, variant)) for s in SKY_SPECS],
            'wcs': [S.build_wcs(w) for w in WCS_SPECS],
            'far': [S.build(s) for s in FAR_SPECS],
            'coord': [PixCoord(10.0, 10.0),
                      PixCoord(np.array([2.0, 9.5, 12.0, 30.0]),
                               np.array([3.0, 10.5, 9.0, -4.0])),
                      PixCoord(np.arange(12.0).reshape(3, 4),
                               np.arange(12.0).reshape(3, 4)[::-1] + 1.5),
                      # index grids as users get them: unsigned / narrow ints
                      PixCoord(np.array([3, 9, 12, 20], dtype=np.uint16),
                               np.array([4, 10, 9, 2], dtype=np.uint16)),
                      PixCoord(np.arange(6, dtype=np.int32).reshape(2, 3) + 8,
                               np.arange(6, dtype=np.int32).reshape(2, 3) + 7)],
            'image': [np.arange(20 * 24, dtype=float).reshape(20, 24),
                      (np.arange(15 * 15).reshape(15, 15) % 7).astype(np.int64)]}
    # persistent mask objects (a leak between calls must be visible)
    pool['mask'] = [pool['pix'][i].to_mask('center') for i in (0, 1, 3, 5)]
    shared = [S.build(dict(s, meta={'text': 'same', 'select': 1, 'fixed': 0,
                                    'source': 1},
                           visual={'linewidth': 2, 'linestyle': 'dashed',
                                   'facecolor': 'red', 'edgecolor': 'red'}))
              for s in (vary(PIXEL_SPECS[0], variant),
                        vary(PIXEL_SPECS[1], variant),
                        vary(PIXEL_SPECS[2], variant))]
    pool['pix_shared'] = shared
    pool['list'] = [Regions([pool['pix'][0], pool['pix'][1], pool['pix'][3]]),
                    Regions([pool['pix'][2], pool['pix'][5], pool['pix'][7],
                             pool['pix'][4]]),
                    Regions([pool['sky'][0], pool['sky'][2], pool['sky'][3]]),
                    # all members share metadata -> DS9 'global' line
                    Regions(list(shared))]
    return pool


MASKABLE = [0, 1, 2, 3, 4, 5, 6]
EXACT_OK = [0, 1]
SUB_OK = [0, 1, 2, 3, 4]


def scratch_dir():
    d = os.path.join(HERE, '.scratch')
    os.makedirs(d, exist_ok=True)
    return tempfile.mkdtemp(prefix='c13-', dir=d)


def _io_options(fmt, k, sky):
    """Serialiser options vary with the operation parameter, so that state
    kept between calls with DIFFERENT options becomes visible."""
    if fmt == 'ds9':
        return {'precision': [8, 3, 8, 5, 8, 2][k % 6]}
    if fmt == 'crtf':
        kw = {'coordsys': 'fk5' if sky else 'image',
              'fmt': ['.6f', '.6f', '.3f', '.6f', '.3f', '.6f'][k % 6]}
        if sky:
            kw['radunit'] = ['deg', 'arcmin', 'deg', 'rad', 'arcmin',
                             'deg'][k % 6]
        return kw
    return {}


def apply(pool, op):
    """op = [name, *params] with params JSON.  Returns (args, result): the
    live argument objects that must stay untouched and the result object."""
    from regions import Regions
    name = op[0]
    P, Sk, Wc, C, Im, L = (pool['pix'], pool['sky'], pool['wcs'],
                           pool['coord'], pool['image'], pool['list'])
    with warnings.catch_warnings():
        warnings.simplefilter('ignore')
        if name == 'contains':
            r, c = P[op[1] % len(P)], C[op[2] % len(C)]
            return [r, c], r.contains(c)
        if name == 'in':
            r, c = P[op[1] % len(P)], C[0]
            return [r, c], c in r
        if name == 'area':
            r = P[op[1] % 7]
            return [r], r.area
        if name == 'bbox':
            r = P[op[1] % len(P)]
            return [r], r.bounding_box
        if name == 'to_mask':
            i = MASKABLE[op[1] % len(MASKABLE)]
            mode = ['center', 'subpixels', 'exact'][op[2] % 3]
            if mode == 'exact' and i not in EXACT_OK:
                mode = 'center'
            if mode == 'subpixels' and i not in SUB_OK:
                mode = 'center'
            return [P[i]], P[i].to_mask(mode, 1 + op[3] % 5)
        if name == 'mask_apply':
            i = MASKABLE[op[1] % len(MASKABLE)]
            img = Im[op[2] % len(Im)]
            m = P[i].to_mask('center')
            how = op[3] % 4
            if how == 0:
                res = m.cutout(img, fill_value=-1.0)
            elif how == 1:
                res = m.multiply(img)
            elif how == 2:
                res = m.get_values(img)
            else:
                res = m.to_image(img.shape)
            return [P[i], img], res
        if name == 'mask_values':
            m = pool['mask'][op[1] % len(pool['mask'])]
            img = Im[0]
            how = op[2] % 3
            dm = None
            if how == 1:
                dm = (img % 3 == 0)
            elif how == 2:
                dm = (img % 2 == 1)
            kind = op[3] % 3
            if kind == 0:
                return [m, img], m.get_values(img, mask=dm)
            if kind == 1:
                return [m, img], m.multiply(img, fill_value=float(how))
            return [m, img], m.cutout(img, fill_value=float(how),
                                      copy=bool(how))
        if name == 'to_sky':
            r, w = P[op[1] % len(P)], Wc[op[2] % len(Wc)]
            return [r, w], r.to_sky(w)
        if name == 'to_pixel':
            r, w = Sk[op[1] % len(Sk)], Wc[op[2] % len(Wc)]
            return [r, w], r.to_pixel(w)
        if name == 'to_pixel_far':
            r = pool['far'][op[1] % len(pool['far'])]
            w = Wc[op[2] % len(Wc)]
            try:
                return [r, w], r.to_pixel(w)
            except ValueError as exc:
                # refusing is an answer too - the same one every time
                return [r, w], ['refused', 'ValueError', str(exc)[:60]]
        if name == 'sky_contains':
            r, w = Sk[op[1] % len(Sk)], Wc[op[2] % len(Wc)]
            sc = C[1].to_sky(w)
            return [r, w, C[1]], r.contains(sc, w)
        if name == 'rotate':
            import astropy.units as u
            r, c = P[op[1] % len(P)], C[0]
            return [r, c], r.rotate(c, (17.0 * (1 + op[2] % 5)) * u.deg)
        if name == 'copy':
            pools = P + Sk
            r = pools[op[1] % len(pools)]
            return [r], r.copy()
        if name == 'combine':
            a, b = P[MASKABLE[op[1] % 7]], P[MASKABLE[op[2] % 7]]
            o = [a.__and__, a.__or__, a.__xor__][op[3] % 3]
            comp = o(b)
            return [a, b], [comp, comp.contains(C[1]), comp.to_mask().data]
        if name == 'artist':
            r = P[op[1] % len(P)]
            # (with or without overriding keywords: what one call was given
            # must not show in the artist the next call makes)
            kw = [{}, {}, {'color': 'magenta'}, {'alpha': 0.5, 'zorder': 9},
                  {'label': 'legend entry'}, {}][op[3] % 6]
            o = (1.0 * (op[2] % 3), 0.5)
            a0 = r.as_artist(origin=o)
            if kw:
                r.as_artist(origin=o, **kw)
                a2 = r.as_artist(origin=o)
                from vf.fingerprint import fp as _fp
                if _fp(a2) != _fp(a0):
                    from vf.runner import Mismatch
                    raise Mismatch(
                        'C13.history | artist | drawing the region again '
                        'after a call with overriding keywords gives a '
                        'different artist', f'keywords {kw}; region {r!r}')
            return [r], a0
        if name == 'serialize':
            lst = L[op[1] % len(L)]
            fmt = ['ds9', 'crtf', 'fits'][op[2] % 3]
            if fmt == 'fits' and op[1] % len(L) == 2:
                fmt = 'ds9'
            if op[1] % len(L) == 3 and fmt == 'crtf':
                fmt = 'ds9'        # (CRTF has no 'dashed' line style)
            kw = _io_options(fmt, op[3], sky=op[1] % len(L) == 2)
            return [lst] + list(lst.regions), lst.serialize(format=fmt, **kw)
        if name == 'serialize_one':
            pools = P + Sk
            r = pools[op[1] % len(pools)]
            fmt = ['ds9', 'crtf'][op[2] % 2]
            if type(r).__name__.startswith('EllipseAnnulus'):
                fmt = 'ds9'          # CRTF has no elliptical annulus
            kw = _io_options(fmt, op[3], sky=(op[1] % len(pools)) >= len(P))
            return [r], r.serialize(format=fmt, **kw)
        if name == 'parse':
            fmt = ['ds9', 'crtf'][op[1] % 2]
            blobs = DS9_BLOBS if fmt == 'ds9' else CRTF_BLOBS
            blob = blobs[op[2] % len(blobs)]
            return [blob], list(Regions.parse(blob, format=fmt))
        if name == 'parse_table':
            lst = L[(0, 1, 3)[op[1] % 3]]
            t = lst.serialize(format='fits')
            return [lst, t], list(Regions.parse(t, format='fits'))
        if name == 'write_read':
            lst = L[op[1] % len(L)]
            fmt = ['ds9', 'crtf', 'fits'][op[2] % 3]
            if op[1] % len(L) == 2 and fmt == 'fits':
                fmt = 'ds9'
            if fmt == 'crtf' and op[1] % len(L) != 2:
                fmt = 'ds9'     # pixel polygons do not re-read (known, C11)
            d = scratch_dir()
            try:
                path = os.path.join(d, 'h' + {'ds9': '.reg', 'crtf': '.crtf',
                                              'fits': '.fits'}[fmt])
                kw = {'coordsys': 'fk5'} if fmt == 'crtf' else {}
                lst.write(path, format=fmt, **kw)
                if fmt == 'fits':
                    content = None
                else:
                    with open(path, 'rb') as fh:
                        content = fh.read()
                back = list(Regions.read(path, format=fmt))
            finally:
                shutil.rmtree(d, ignore_errors=True)
            return [lst] + list(lst.regions), [content, back]
        if name == 'slice':
            lst = L[op[1] % len(L)]
            sl = slice(op[2] % 3, None, 1 + op[3] % 2)
            return [lst], lst[sl]
    raise ValueError(name)


def scribble(op, result):
    """Overwrite every array the caller received from ``op`` (results are
    the caller's to edit).  Not done where the library documents the result
    as a view of an input (cutout with copy=False) and for containers that
    hold the pool's own objects (list slices, compounds).  Returns the number
    of arrays overwritten."""
    import astropy.units as u
    from regions import RegionMask
    name = op[0]
    if name == 'mask_apply' and op[3] % 4 == 0:
        return 0
    if name == 'mask_values' and op[3] % 3 == 2 and op[2] % 3 == 0:
        return 0
    if name not in ('contains', 'to_mask', 'mask_apply', 'mask_values',
                    'sky_contains', 'combine', 'rotate', 'copy', 'to_pixel',
                    'parse', 'parse_table', 'write_read'):
        return 0
    n = 0

    def arr(a):
        nonlocal n
        if isinstance(a, np.ndarray) and a.size and a.flags.writeable:
            if a.dtype == bool:
                a[...] = ~a
            else:
                a[...] = np.asarray(-7.25).astype(a.dtype)
            n += 1

    def walk(v):
        nonlocal n
        if isinstance(v, u.Quantity):
            if v.shape:
                arr(v.view(np.ndarray))
        elif isinstance(v, np.ndarray):
            arr(v)
        elif isinstance(v, RegionMask):
            arr(v.data)
        elif isinstance(v, (list, tuple)):
            for x in v:
                walk(x)
        elif name in ('parse', 'parse_table', 'write_read') and hasattr(
                v, 'meta'):
            # freshly parsed regions: their list-valued metadata (tags ...)
            for d in (v.meta, v.visual):
                for x in list(d.values()):
                    if isinstance(x, list) and 'EDITED' not in x:
                        x.append('EDITED')
                        n += 1
        elif name in ('rotate', 'copy', 'to_pixel') and hasattr(v, '_params'):
            verts = getattr(v, 'vertices', None)
            if verts is not None and hasattr(verts, 'x'):
                arr(verts.x)
                arr(verts.y)

    walk(result)
    return n


def wcs_probe(w):
    """What a WCS object answers: near its centre and on the far side of its
    projection (the header does not show every switch of the object)."""
    lon0, lat0 = (float(v) for v in w.wcs.crval)
    pts = [(lon0 + 0.003, lat0 - 0.002), ((lon0 + 180.0) % 360.0, -lat0),
           ((lon0 + 120.0) % 360.0, -lat0)]
    out = []
    with warnings.catch_warnings():
        warnings.simplefilter('ignore')
        for lon, lat in pts:
            try:
                xy = w.wcs_world2pix([[lon, lat]], 0)[0]
                out.append([repr(float(v)) for v in xy])
            except Exception as exc:   # noqa: BLE001
                out.append(type(exc).__name__)
        out.append([repr(float(v)) for v in w.wcs_pix2world([[3.0, 4.0]], 0)[0]])
    return out


def module_tables():
    """Fingerprint of the module-level tables the parsers/writers consult."""
    from regions.core.registry import RegionsRegistry
    from regions.io.crtf.read import _CRTFRegionParser
    from regions.io.ds9 import core as dcore
    reg = sorted((k[0].__name__, k[1], k[2]) for k in RegionsRegistry.registry)
    ls = {k: (list(v) if isinstance(v, list) else type(v).__name__)
          for k, v in _CRTFRegionParser.language_spec.items()}
    tmpl = {k: (list(v) if isinstance(v, tuple) else type(v).__name__)
            for k, v in dcore.ds9_params_template.items()}
    return fp([reg, ls, tmpl, dict(dcore.ds9_frame_map),
               {k: list(v) for k, v in dcore.ds9_shape_templates.items()},
               sorted(dcore.ds9_valid_symbols)])


def region_op(args):
    """Child-interpreter entry: a fresh pool, ONE operation, its result."""
    pool = make_pool(args.get('variant'))
    _, result = apply(pool, args['op'])
    return fp(result)
