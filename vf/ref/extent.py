"""True axis-aligned extent of a pixel-region spec, in mpmath (40 digits),
from the float values the region stores.  Returns (xmin, xmax, ymin, ymax,
tau) with tau the float-rounding allowance of the library's own evaluation."""
import mpmath as mp

from vf.spec import angle_rad_raw

mp.mp.dps = 40
EPS = 2.0 ** -52

_UNIT = {'deg': lambda v: v * mp.pi / 180, 'rad': lambda v: v,
         'arcmin': lambda v: v * mp.pi / 10800,
         'arcsec': lambda v: v * mp.pi / 648000,
         'hourangle': lambda v: v * mp.pi / 12}


def _theta(spec):
    a = spec.get('angle')
    if a is None:
        return mp.mpf(0), 0.0
    return _UNIT[a[1]](mp.mpf(float(a[0]))), angle_rad_raw(a)


def _is_dyadic(v):
    v = float(v)
    return abs(v) < 2.0 ** 20 and (v * 2.0 ** 24).is_integer()


def _dyadic_exact(spec):
    cls = spec['cls']
    if cls == 'RegularPolygonPixelRegion':
        return False
    a = spec.get('angle')
    if a is not None and float(a[0]) != 0.0:
        return False
    vals = []
    for k in ('center', 'start', 'end', 'origin'):
        if spec.get(k) is not None:
            vals += list(spec[k])
    for k in ('radius', 'width', 'height', 'inner_radius', 'outer_radius',
              'inner_width', 'outer_width', 'inner_height', 'outer_height'):
        if k in spec:
            vals.append(spec[k])
    if 'vertices' in spec:
        vals += list(spec['vertices'][0]) + list(spec['vertices'][1])
    return all(_is_dyadic(v) for v in vals)


def extent(spec):
    cls = spec['cls']
    M = mp.mpf
    if cls == 'CompoundPixelRegion':
        raise ValueError('compound extents are box algebra, not geometry')
    if cls in ('PointPixelRegion', 'TextPixelRegion'):
        x, y = M(float(spec['center'][0])), M(float(spec['center'][1]))
        ext = (x, x, y, y)
        ang = 0.0
    elif cls == 'LinePixelRegion':
        xs = [M(float(spec['start'][0])), M(float(spec['end'][0]))]
        ys = [M(float(spec['start'][1])), M(float(spec['end'][1]))]
        ext = (min(xs), max(xs), min(ys), max(ys))
        ang = 0.0
    elif cls == 'PolygonPixelRegion':
        vx, vy = spec['vertices']
        ox, oy = (spec.get('origin') or [0.0, 0.0])
        # the library stores float(v + origin)
        xs = [M(float(v) + float(ox)) for v in vx]
        ys = [M(float(v) + float(oy)) for v in vy]
        ext = (min(xs), max(xs), min(ys), max(ys))
        ang = 0.0
    elif cls == 'RegularPolygonPixelRegion':
        th0, ang = _theta(spec)
        n = int(spec['nvertices'])
        r = M(float(spec['radius']))
        cx, cy = M(float(spec['center'][0])), M(float(spec['center'][1]))
        xs = [cx + r * mp.cos(2 * mp.pi * k / n + mp.pi / 2 + th0)
              for k in range(n)]
        ys = [cy + r * mp.sin(2 * mp.pi * k / n + mp.pi / 2 + th0)
              for k in range(n)]
        ext = (min(xs), max(xs), min(ys), max(ys))
    else:
        cx, cy = M(float(spec['center'][0])), M(float(spec['center'][1]))
        if cls == 'CirclePixelRegion':
            r = M(float(spec['radius']))
            dx = dy = r
            ang = 0.0
        elif cls == 'CircleAnnulusPixelRegion':
            r = M(float(spec['outer_radius']))
            dx = dy = r
            ang = 0.0
        else:
            if 'Annulus' in cls:
                w, h = spec['outer_width'], spec['outer_height']
            else:
                w, h = spec['width'], spec['height']
            a, b = M(float(w)) / 2, M(float(h)) / 2
            th, ang = _theta(spec)
            c, s = mp.cos(th), mp.sin(th)
            if cls.startswith('Ellipse'):
                dx = mp.sqrt((a * c) ** 2 + (b * s) ** 2)
                dy = mp.sqrt((a * s) ** 2 + (b * c) ** 2)
            else:
                dx = abs(a * c) + abs(b * s)
                dy = abs(a * s) + abs(b * c)
        ext = (cx - dx, cx + dx, cy - dy, cy + dy)
    if _dyadic_exact(spec):
        # every stored value is a small dyadic rational and no rotation is
        # involved: the library's own float arithmetic is exact, so is ours
        return (*ext, 0.0)
    scale = max(1.0, *(abs(float(v)) for v in ext))
    size = float(ext[1] - ext[0]) + float(ext[3] - ext[2])
    tau = 64 * EPS * scale + 8 * EPS * ang * size + 64 * EPS * size
    return (*ext, tau)
