"""DS9 abstract files: rendering to text and a reference interpreter.

The generator (vf/props/c10.py) draws an *abstract file*: a JSON list of
statements whose numbers are already text fields (so the text is exact).
``render`` turns it into DS9 text using the surface syntax recorded in each
statement; ``interpret`` walks the same statements applying the format rules
as written in the DS9 reference manual / the property statement and returns
the expected regions.  Nothing here parses text and nothing is shared with
``regions.io``.
"""
import math

EQUATORIAL = ('icrs', 'fk5', 'fk4')
FRAME_ALIASES = {'image': 'image', 'icrs': 'icrs', 'fk5': 'fk5', 'j2000': 'fk5',
                 'fk4': 'fk4', 'b1950': 'fk4', 'galactic': 'galactic',
                 'ecliptic': 'barycentricmeanecliptic'}
FLAGS = ('select', 'highlite', 'fixed', 'edit', 'move', 'delete', 'rotate',
         'source', 'background')
OUTLINE = ('circle', 'ellipse', 'box', 'polygon', 'annulus')


# ----------------------------------------------------------------- numbers ---

def num_value(t):
    return float(t)


def coord_text_value(c, is_lon, frame):
    """c = {'style': ..., fields}.  Returns (text, degrees)."""
    st = c['style']
    if st == 'raw':          # deliberately unsupported notation
        return c['t'], float('nan')
    if st == 'dec':
        return c['t'], num_value(c['t'])
    if st == 'dsuf':
        return c['t'] + 'd', num_value(c['t'])
    if st == 'rsuf':
        return c['t'] + 'r', math.degrees(num_value(c['t']))
    sign = -1.0 if c.get('neg') else 1.0
    mag = c['d'] + c['m'] / 60.0 + num_value(c['s']) / 3600.0
    sg = '-' if c.get('neg') else ('+' if c.get('plus') else '')
    if st == 'colon':
        text = f"{sg}{c['d']}:{c['m']:02d}:{c['s']}"
        hours = is_lon and frame in EQUATORIAL
        return text, sign * mag * (15.0 if hours else 1.0)
    if st == 'hms':          # XhYmZs: always hours
        return f"{sg}{c['d']}h{c['m']:02d}m{c['s']}s", sign * mag * 15.0
    if st == 'dms':          # XdYmZs: always degrees
        return f"{sg}{c['d']}d{c['m']:02d}m{c['s']}s", sign * mag
    raise ValueError(st)


def size_text_value(s, pixel):
    """s = {'t': text, 'u': unit suffix}.  Returns (text, value) with value
    in pixels (image frame) or degrees."""
    v = num_value(s['t'])
    u = s.get('u', '')
    if pixel:
        return s['t'] + u, v          # u is '' or 'i'
    deg = {'"': v / 3600.0, "'": v / 60.0, 'd': v, 'r': math.degrees(v),
           '': v}[u]
    return s['t'] + u, deg


def angle_text_value(a):
    v = num_value(a['t'])
    u = a.get('u', '')
    return a['t'] + u, (math.degrees(v) if u == 'r' else v)


# --------------------------------------------------------------- rendering ---

def _props_text(props, tdelim='{}'):
    out = []
    for k, v in props:
        if k in ('text', 'tag'):
            d = tdelim if k == 'text' else '{}'
            out.append(f'{k}={d[0]}{v}{d[1]}')
        elif k == 'font':
            out.append(f'font="{v}"')
        else:
            out.append(f'{k}={v}')
    return ' '.join(out)


def _case(name, how):
    return {'lower': name, 'upper': name.upper(),
            'cap': name.capitalize()}[how]


def render_region(r, frame):
    pixel = frame == 'image'
    params = []
    for i, c in enumerate(r['coords']):
        if pixel:
            params.append(c['t'] + c.get('u', ''))
        else:
            params.append(coord_text_value(c, i % 2 == 0, frame)[0])
    for s in r.get('sizes', []):
        params.append(size_text_value(s, pixel)[0])
    if r.get('angle') is not None:
        params.append(angle_text_value(r['angle'])[0])
    name = _case(r['shape'], r.get('case', 'lower'))
    sign = r.get('sign', '')
    if r.get('hash_text'):
        # the odd form DS9 itself writes for text regions
        body = f'# text({",".join(params)})'
    elif r.get('style', 'paren') == 'paren':
        body = f"{sign}{name}(" + r.get('sep', ',').join(params) + ')'
    else:
        body = f'{sign}{name} ' + ' '.join(params)
    props = _props_text(r.get('props', []), r.get('tdelim', '{}'))
    if r.get('hash_text'):
        body += ' ' + props
    elif props:
        body += ' # ' + props
    return body


def render(afile):
    """Abstract file -> DS9 text."""
    out = ''
    frame = None
    for s in afile:
        k = s['k']
        term = s.get('term', '\n')
        if k in ('comment', 'header') and out and not out.endswith('\n'):
            out += '\n'          # a comment starts its own line
        if k == 'comment':
            # (optionally indented: blanks before '#' do not make it a
            # statement - the library strips them, as it does for any line)
            out += s.get('indent', '') + '# ' + s['text'] + '\n'
            continue
        if k == 'header':
            out += '# Region file format: DS9 version 4.1\n'
            continue
        if k == 'blank':
            out += '\n'
            continue
        if k == 'frame':
            line = _case(s['name'], s.get('case', 'lower'))
            frame = FRAME_ALIASES[s['name']]
        elif k == 'unsup_frame':
            line = s['name']
            frame = None
        elif k == 'unsup_shape':
            if s.get('bare'):
                line = s['name'] + ' ' + s['params'].replace(',', ' ')
            else:
                line = f"{s['name']}({s['params']})"
            if s.get('props'):
                line += ' # ' + s['props']
        elif k == 'global':
            line = (_case('global', s.get('case', 'lower')) + ' '
                    + _props_text(s['props']))
        elif k == 'region':
            line = render_region(s, frame if frame is not None else 'image')
            if line.startswith('#'):
                term = '\n'
        elif k == 'composite':
            fr = frame if frame is not None else 'image'
            head = dict(s['head'])
            lines = [render_region(head, fr) + ' || composite=1 '
                     + _props_text(s.get('cprops', []))]
            for j, m in enumerate(s['members']):
                t = render_region(m, fr)
                if j < len(s['members']) - 1:
                    t += ' ||'
                lines.append(t)
            line = '\n'.join(lines)
            term = '\n'
        else:
            raise ValueError(k)
        out += line + term
    return out


# ------------------------------------------------------------- interpreter ---

def _meta_from(props_layers, sign):
    """Apply the precedence global -> composite -> sign -> local."""
    merged = {}
    tags = None
    for layer in props_layers[:-1]:
        for k, v in layer:
            if k == 'tag':
                continue
            merged[k] = v
    merged['include'] = 0 if sign == '-' else 1
    for k, v in props_layers[-1]:
        if k == 'tag':
            tags = (tags or []) + [v]
        else:
            merged[k] = v
    # tags: a local tag list replaces inherited ones
    if tags is None:
        for layer in props_layers[:-1]:
            t = [v for k, v in layer if k == 'tag']
            if t:
                tags = t
    return merged, tags


def expected_regions(r, frame, layers):
    """One region statement -> list of expected dicts (multi-radius forms
    expand).  Returns None when the statement must be skipped with a
    warning (unit/frame combination the docs declare unsupported)."""
    pixel = frame == 'image'
    shape = r['shape']
    if r.get('bad_units'):
        return None
    pts = []
    cs = r['coords']
    for i in range(0, len(cs), 2):
        if pixel:
            pts.append((num_value(cs[i]['t']) - 1.0,
                        num_value(cs[i + 1]['t']) - 1.0))
        else:
            pts.append((coord_text_value(cs[i], True, frame)[1],
                        coord_text_value(cs[i + 1], False, frame)[1]))
    sizes = [size_text_value(s, pixel)[1] for s in r.get('sizes', [])]
    angle = (angle_text_value(r['angle'])[1] if r.get('angle') is not None
             else None)
    merged, tags = _meta_from(layers + [r.get('props', [])], r.get('sign', ''))
    base = {'frame': frame, 'meta': merged, 'tags': tags, 'shape': shape}
    out = []
    if shape == 'circle':
        out.append(dict(base, cls='Circle', center=pts[0], sizes=[sizes[0]]))
    elif shape in ('ellipse', 'box'):
        k = 2.0 if shape == 'ellipse' else 1.0
        sz = [v * k for v in sizes]
        npairs = len(sz) // 2
        if npairs == 1:
            out.append(dict(base, cls='Ellipse' if shape == 'ellipse'
                            else 'Rectangle', center=pts[0], sizes=sz,
                            angle=angle))
        else:
            for j in range(npairs - 1):
                out.append(dict(base, cls=('EllipseAnnulus' if shape == 'ellipse'
                                           else 'RectangleAnnulus'),
                                center=pts[0], angle=angle,
                                # inner_width, outer_width, inner_h, outer_h
                                sizes=[sz[2 * j], sz[2 * j + 2], sz[2 * j + 1],
                                       sz[2 * j + 3]]))
    elif shape == 'annulus':
        for a, b in zip(sizes[:-1], sizes[1:]):
            out.append(dict(base, cls='CircleAnnulus', center=pts[0],
                            sizes=[a, b]))
    elif shape == 'polygon':
        out.append(dict(base, cls='Polygon', pts=pts))
    elif shape == 'line':
        out.append(dict(base, cls='Line', center=pts[0], end=pts[1]))
    elif shape == 'point':
        out.append(dict(base, cls='Point', center=pts[0]))
    elif shape == 'text':
        out.append(dict(base, cls='Text', center=pts[0]))
    return out


def interpret(afile):
    """Abstract file -> (expected regions, number of statements that must be
    skipped with a warning)."""
    frame = None
    gl = []
    expected = []
    skipped = 0
    for s in afile:
        k = s['k']
        if k in ('comment', 'header', 'blank'):
            continue
        if k == 'frame':
            frame = FRAME_ALIASES[s['name']]
        elif k == 'unsup_frame':
            frame = None
            skipped += 1
        elif k == 'unsup_shape':
            skipped += 1
        elif k == 'global':
            # later global statements override earlier ones key by key
            keys = {kk for kk, _ in s['props']}
            gl = [(kk, v) for kk, v in gl if kk not in keys] + list(s['props'])
        elif k == 'region':
            if frame is None:
                skipped += 1
                continue
            e = expected_regions(s, frame, [gl])
            if e is None:
                skipped += 1
            else:
                expected.extend(e)
        elif k == 'composite':
            if frame is None:
                skipped += 1 + len(s['members'])
                continue
            cp = list(s.get('cprops', []))
            for m in s['members']:
                e = expected_regions(m, frame, [gl, cp])
                if e is None:
                    skipped += 1
                else:
                    expected.extend(e)
    return expected, skipped
