"""Reference membership written from the mathematical definitions.

``membership(spec, x, y)`` returns ``(inside, definite)`` boolean arrays for a
pixel-region *spec* (not a library object): ``inside`` is the mathematical
answer for the INCLUDED shape, ``definite`` is False where the point lies in
the band in which float rounding may decide (those points are never
asserted).  No code is shared with ``regions``.
"""
import math

import numpy as np

from vf.spec import angle_rad_raw, angle_rad_reduced

EPS = 2.0 ** -52
K = 64.0


def _cs(spec):
    a = spec.get('angle')
    if a is None:
        return 1.0, 0.0, 0.0
    th = angle_rad_reduced(a)
    return math.cos(th), math.sin(th), angle_rad_raw(a)


def circle(cx, cy, r, x, y, pos_err=0.0):
    dx, dy = x - cx, y - cy
    d = np.hypot(dx, dy)
    m = r - d
    tau = K * EPS * (d + r) + 2 * pos_err
    return m > 0, np.abs(m) > tau


def ellipse(cx, cy, w, h, c, s, angraw, x, y, pos_err=0.0):
    a, b = w / 2.0, h / 2.0
    dx, dy = x - cx, y - cy
    uu = c * dx + s * dy
    vv = -s * dx + c * dy
    q = (uu / a) ** 2 + (vv / b) ** 2
    d = np.hypot(dx, dy)
    # forward error of q: relative K*eps on every product plus the angle
    # conversion error eps*|theta| acting on the rotated offsets
    rel = K * EPS + 8 * EPS * angraw
    band = (rel * (1.0 + q)
            + 4 * (rel * d + 2 * pos_err) / min(a, b) * (1 + np.sqrt(q)))
    return q <= 1.0, np.abs(1.0 - q) > band


def rectangle(cx, cy, w, h, c, s, angraw, x, y, pos_err=0.0):
    a, b = w / 2.0, h / 2.0
    dx, dy = x - cx, y - cy
    uu = c * dx + s * dy
    vv = -s * dx + c * dy
    m = np.minimum(a - np.abs(uu), b - np.abs(vv))
    d = np.hypot(dx, dy)
    tau = K * EPS * (d + a + b) + 8 * EPS * angraw * d + 3 * pos_err
    return m > 0, np.abs(m) > tau


def polygon(vx, vy, x, y, extra_tau=0.0):
    """Even-odd rule by counting crossings of the UPWARD vertical ray (the
    library shoots a horizontal ray), plus exact distance to the nearest
    edge for the ambiguity band."""
    vx = np.asarray(vx, float)
    vy = np.asarray(vy, float)
    x = np.asarray(x, float)
    y = np.asarray(y, float)
    inside = np.zeros(x.shape, bool)
    dist = np.full(x.shape, np.inf)
    n = len(vx)
    for i in range(n):
        j = (i + 1) % n
        xi, yi, xj, yj = vx[i], vy[i], vx[j], vy[j]
        if xi != xj:
            straddle = (xi > x) != (xj > x)
            with np.errstate(all='ignore'):
                yint = yi + (x - xi) * (yj - yi) / (xj - xi)
            inside ^= straddle & (yint > y)
        ex, ey = xj - xi, yj - yi
        L2 = ex * ex + ey * ey
        if L2 > 0:
            t = np.clip(((x - xi) * ex + (y - yi) * ey) / L2, 0.0, 1.0)
        else:
            t = 0.0
        dist = np.minimum(dist, np.hypot(x - (xi + t * ex), y - (yi + t * ey)))
    scale = np.abs(x) + np.abs(y) + np.abs(vx).max() + np.abs(vy).max()
    tau = K * EPS * scale + extra_tau
    return inside, dist > tau


def regular_polygon_vertices(spec):
    cx, cy = spec['center']
    n = int(spec['nvertices'])
    r = float(spec['radius'])
    th0 = angle_rad_reduced(spec['angle']) if spec.get('angle') else 0.0
    k = np.arange(n)
    th = 2.0 * math.pi * k / n + math.pi / 2 + th0
    return cx + r * np.cos(th), cy + r * np.sin(th)


def polygon_vertices(spec):
    vx, vy = spec['vertices']
    vx = np.asarray(vx, float)
    vy = np.asarray(vy, float)
    if spec.get('origin') is not None:
        vx = vx + float(spec['origin'][0])
        vy = vy + float(spec['origin'][1])
    return vx, vy


def membership(spec, x, y, pos_err=0.0):
    """(inside, definite) for the included shape described by *spec*.
    *pos_err* is an additional absolute uncertainty of the query positions
    (mask sample points are computed by the library in floating point)."""
    cls = spec['cls']
    x, y = np.broadcast_arrays(np.asarray(x, float), np.asarray(y, float))
    pe = pos_err
    if cls == 'CirclePixelRegion':
        return circle(*map(float, spec['center']), float(spec['radius']), x, y,
                      pe)
    if cls == 'EllipsePixelRegion':
        c, s, ar = _cs(spec)
        return ellipse(*map(float, spec['center']), float(spec['width']),
                       float(spec['height']), c, s, ar, x, y, pe)
    if cls == 'RectanglePixelRegion':
        c, s, ar = _cs(spec)
        return rectangle(*map(float, spec['center']), float(spec['width']),
                         float(spec['height']), c, s, ar, x, y, pe)
    if cls == 'PolygonPixelRegion':
        vx, vy = polygon_vertices(spec)
        return polygon(vx, vy, x, y, 2 * pe)
    if cls == 'RegularPolygonPixelRegion':
        vx, vy = regular_polygon_vertices(spec)
        r = float(spec['radius'])
        ar = angle_rad_raw(spec['angle']) if spec.get('angle') else 0.0
        extra = K * EPS * (r + abs(spec['center'][0]) + abs(spec['center'][1])) \
            + 8 * EPS * ar * r
        return polygon(vx, vy, x, y, extra + 2 * pe)
    if cls == 'CircleAnnulusPixelRegion':
        cx, cy = map(float, spec['center'])
        i_in, d_in = circle(cx, cy, float(spec['inner_radius']), x, y, pe)
        i_out, d_out = circle(cx, cy, float(spec['outer_radius']), x, y, pe)
        return i_out & ~i_in, d_in & d_out
    if cls in ('EllipseAnnulusPixelRegion', 'RectangleAnnulusPixelRegion'):
        cx, cy = map(float, spec['center'])
        c, s, ar = _cs(spec)
        f = ellipse if cls.startswith('Ellipse') else rectangle
        i_in, d_in = f(cx, cy, float(spec['inner_width']),
                       float(spec['inner_height']), c, s, ar, x, y, pe)
        i_out, d_out = f(cx, cy, float(spec['outer_width']),
                         float(spec['outer_height']), c, s, ar, x, y, pe)
        return i_out & ~i_in, d_in & d_out
    if cls in ('PointPixelRegion', 'LinePixelRegion', 'TextPixelRegion'):
        return np.zeros(x.shape, bool), np.ones(x.shape, bool)
    raise ValueError(cls)


def include_flag(spec):
    """True unless the spec's meta carries a false include flag."""
    meta = spec.get('meta') or {}
    return bool(meta.get('include', True))


def contains_ref(spec, x, y):
    """Reference for ``region.contains`` including include flags and
    compounds: returns (answer, definite)."""
    cls = spec['cls']
    if cls == 'CompoundPixelRegion':
        from vf.spec import OPS
        a1, d1 = contains_ref(spec['r1'], x, y)
        a2, d2 = contains_ref(spec['r2'], x, y)
        ans = OPS[spec['op']](a1, a2)
        meta = _compound_meta(spec)
        if not bool(meta.get('include', True)):
            ans = ~ans
        return ans, d1 & d2
    ins, dfn = membership(spec, x, y)
    if not include_flag(spec):
        ins = ~ins
    return ins, dfn


def _compound_meta(spec):
    """The meta a compound ends up with: its own, else region1's."""
    if spec.get('meta') is not None:
        return spec['meta']
    r1 = spec['r1']
    if r1['cls'] == 'CompoundPixelRegion':
        return _compound_meta(r1)
    return r1.get('meta') or {}


def stripped_ref(spec, x, y, pos_err=0.0):
    """Reference membership of the include-STRIPPED region (what masks
    represent): compounds apply their operator to the stripped operands."""
    if spec['cls'] == 'CompoundPixelRegion':
        from vf.spec import OPS
        a1, d1 = stripped_ref(spec['r1'], x, y, pos_err)
        a2, d2 = stripped_ref(spec['r2'], x, y, pos_err)
        return OPS[spec['op']](a1, a2), d1 & d2
    return membership(spec, x, y, pos_err)


def center_of(spec):
    """A representative centre of a leaf spec (for error scales)."""
    if 'center' in spec:
        return float(spec['center'][0]), float(spec['center'][1])
    if spec['cls'] == 'PolygonPixelRegion':
        vx, vy = polygon_vertices(spec)
        return float(np.mean(vx)), float(np.mean(vy))
    if spec['cls'] == 'LinePixelRegion':
        return float(spec['start'][0]), float(spec['start'][1])
    raise ValueError(spec['cls'])
