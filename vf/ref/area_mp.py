"""Exact pixel/shape overlap areas, independent of the library's algorithm.

disk_poly_area: area(unit-or-r disk  n  polygon) by Green's theorem - every
polygon edge is cut at its intersections with the circle; pieces inside
contribute 1/2 cross, pieces outside contribute the signed sector
1/2 r^2 dtheta - evaluated in mpmath (30 digits).  An ellipse is mapped to the
unit disk (rotate, scale by 1/a, 1/b; the pixel becomes a parallelogram; the
area is scaled back by a*b).
"""
import math

import mpmath as mp

mp.mp.dps = 30
TOL = mp.mpf(10) ** -20


def disk_poly_area(poly, r=1):
    """Returns (area, degeneracy) where degeneracy is the smallest distance
    (in disk-normalised units) of a polygon vertex from the circle, of an
    edge from tangency, or of an edge line from the centre."""
    r = mp.mpf(r)
    tot = mp.mpf(0)
    n = len(poly)
    degen = mp.mpf(10)
    for i in range(n):
        px, py = poly[i]
        qx, qy = poly[(i + 1) % n]
        dx, dy = qx - px, qy - py
        a = dx * dx + dy * dy
        if a == 0:
            continue
        degen = min(degen, abs(mp.sqrt(px * px + py * py) - r))
        b = 2 * (px * dx + py * dy)
        c = px * px + py * py - r * r
        disc = b * b - 4 * a * c
        # distance of the edge's line from the centre, foot parameter
        tfoot = -b / (2 * a)
        if 0 <= tfoot <= 1:
            fx, fy = px + tfoot * dx, py + tfoot * dy
            dist = mp.sqrt(fx * fx + fy * fy)
            degen = min(degen, abs(dist - r), dist + mp.mpf(0))
        ts = [mp.mpf(0), mp.mpf(1)]
        # robust in degenerate (tangent / vertex-on-circle) geometry: with 30
        # digits the rounding noise is ~1e-30; a near-tangent edge (|disc|
        # below TOL) is not split - the chord it would cut off has an area of
        # order disc^(3/2)
        if disc > TOL * a * a:
            sq = mp.sqrt(disc)
            for t in ((-b - sq) / (2 * a), (-b + sq) / (2 * a)):
                if 0 < t < 1:
                    ts.append(t)
        ts.sort()
        for t0, t1 in zip(ts[:-1], ts[1:]):
            if t1 == t0:
                continue
            tm = (t0 + t1) / 2
            mx, my = px + tm * dx, py + tm * dy
            ax, ay = px + t0 * dx, py + t0 * dy
            bx, by = px + t1 * dx, py + t1 * dy
            if mx * mx + my * my < r * r * (1 - TOL):
                tot += (ax * by - ay * bx) / 2
            else:
                ang = mp.atan2(ax * by - ay * bx, ax * bx + ay * by)
                tot += r * r * ang / 2
    return abs(tot), degen


def ellipse_pixel_area(cx, cy, a, b, theta, ix, iy):
    """Area of (ellipse  n  unit pixel centred on (ix, iy)); ellipse semi-axes
    a, b, centre (cx, cy), rotation theta (radians, an mpf or float).
    Returns (area, degeneracy)."""
    M = mp.mpf
    cx, cy, a, b = M(cx), M(cy), M(a), M(b)
    theta = M(theta)
    c, s = mp.cos(theta), mp.sin(theta)
    pts = []
    for (x, y) in ((ix - 0.5, iy - 0.5), (ix + 0.5, iy - 0.5),
                   (ix + 0.5, iy + 0.5), (ix - 0.5, iy + 0.5)):
        dx, dy = M(x) - cx, M(y) - cy
        pts.append(((c * dx + s * dy) / a, (-s * dx + c * dy) / b))
    area, degen = disk_poly_area(pts, 1)
    return area * a * b, degen


# --------------------------------------------------------------- polygons ---

def clip_polygon_to_pixel(vx, vy, ix, iy):
    """Sutherland-Hodgman clip of a polygon to the unit pixel (float64);
    returns the clipped vertex list."""
    pts = list(zip(map(float, vx), map(float, vy)))
    x0, x1, y0, y1 = ix - 0.5, ix + 0.5, iy - 0.5, iy + 0.5

    def clip(pts, inside, inter):
        out = []
        for i in range(len(pts)):
            p, q = pts[i - 1], pts[i]
            pin, qin = inside(p), inside(q)
            if qin:
                if not pin:
                    out.append(inter(p, q))
                out.append(q)
            elif pin:
                out.append(inter(p, q))
        return out

    def ix_(xc):
        return lambda p, q: (xc, p[1] + (q[1] - p[1]) * (xc - p[0]) / (q[0] - p[0]))

    def iy_(yc):
        return lambda p, q: (p[0] + (q[0] - p[0]) * (yc - p[1]) / (q[1] - p[1]), yc)

    for inside, inter in ((lambda p: p[0] >= x0, ix_(x0)),
                          (lambda p: p[0] <= x1, ix_(x1)),
                          (lambda p: p[1] >= y0, iy_(y0)),
                          (lambda p: p[1] <= y1, iy_(y1))):
        if not pts:
            break
        pts = clip(pts, inside, inter)
    return pts


def shoelace(pts):
    s = 0.0
    for i in range(len(pts)):
        x0, y0 = pts[i - 1]
        x1, y1 = pts[i]
        s += x0 * y1 - x1 * y0
    return abs(s) / 2


def segment_length_in_pixel(p, q, ix, iy):
    """Length of segment pq inside the closed unit pixel (Liang-Barsky)."""
    x0, x1, y0, y1 = ix - 0.5, ix + 0.5, iy - 0.5, iy + 0.5
    dx, dy = q[0] - p[0], q[1] - p[1]
    t0, t1 = 0.0, 1.0
    for pp, qq in ((-dx, p[0] - x0), (dx, x1 - p[0]),
                   (-dy, p[1] - y0), (dy, y1 - p[1])):
        if pp == 0:
            if qq < 0:
                return 0.0
        else:
            t = qq / pp
            if pp < 0:
                t0 = max(t0, t)
            else:
                t1 = min(t1, t)
    if t1 <= t0:
        return 0.0
    return (t1 - t0) * math.hypot(dx, dy)
