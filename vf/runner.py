"""Seed/tier plumbing, sharding, evidence, VIOLATION / KNOWN-FINDING lines, replay.

A property module ``vf.props.cNN`` exports

    RELATIONS   list of Relation objects (sub-relations of the property)
    RULE        text: how cases are generated and what makes one non-trivial
    ASSUMPTIONS list of strings
    LEVEL       'exploration' | 'fault_enumeration'

Every relation is run in several shards (worker processes); each shard is a
pure function of (VERIF_SEED, relation name, shard index, tier).
"""
import argparse
import collections
import hashlib
import importlib
import json
import multiprocessing
import os
import sys
import time
import traceback
import warnings

HERE = os.path.dirname(os.path.dirname(os.path.abspath(__file__)))
MAX_ROOT_CAUSES = 4          # collect-then-shrink: distinct keys per shard
SAMPLES_PER_TASK = 3


def repo_pkg_dir():
    root = os.environ.get('VERIF_REPO') or os.environ.get('VERIF_REPO_SRC', '/repo')
    return os.path.join(os.path.realpath(root), 'regions') + os.sep


class Mismatch(Exception):
    """The oracle and the library disagree (or the library raised)."""

    def __init__(self, key, msg='', spec=None):
        super().__init__(f'{key} :: {msg}')
        self.key = key
        self.msg = msg
        self.spec = spec     # optional narrower spec (batched enumerations)


class HarnessError(Exception):
    pass


def digest(spec):
    s = json.dumps(spec, sort_keys=True, default=repr)
    return hashlib.sha1(s.encode()).hexdigest()[:16]


def jsonable(o):
    """Best-effort conversion of numpy scalars etc. for replay/evidence."""
    import numpy as np
    if isinstance(o, dict):
        return {str(k): jsonable(v) for k, v in o.items()}
    if isinstance(o, (list, tuple)):
        return [jsonable(v) for v in o]
    if isinstance(o, (np.integer,)):
        return int(o)
    if isinstance(o, (np.floating,)):
        return float(o)
    if isinstance(o, np.bool_):
        return bool(o)
    if isinstance(o, np.ndarray):
        return jsonable(o.tolist())
    if isinstance(o, (str, int, float, bool)) or o is None:
        return o
    return repr(o)


class Ctx:
    """Per-task accumulator handed to Relation.check."""

    def __init__(self, prop, rel, tier, seed, shard, nshards, known_keys):
        self.prop = prop
        self.rel = rel
        self.tier = tier
        self.seed = seed
        self.shard = shard
        self.nshards = nshards
        self.known_keys = known_keys
        self.evaluations = 0
        self.nt_extra = 0      # distinct-by-construction (enumerations)
        self.nt = set()
        self.samples = []
        self.labels = collections.Counter()
        self.counters = collections.Counter()    # ambiguous, outside_domain...
        self.excluded = collections.Counter()
        self.failures = []
        self.last_fail = None
        self.budget_exhausted = False
        self.deadline = None
        self._spec = None
        self._nt = False
        self._labels = []

    # -- case life cycle ---------------------------------------------------
    def begin(self, spec):
        self._spec = spec
        self._nt = False
        self._labels = []

    def end(self):
        self.evaluations += 1
        for lab in self._labels:
            self.labels[lab] += 1
        if self._nt:
            d = digest(self._spec)
            if d not in self.nt:
                self.nt.add(d)
                if len(self.samples) < SAMPLES_PER_TASK:
                    self.samples.append(jsonable(self._spec))

    # -- used by checks ----------------------------------------------------
    def nontrivial(self, flag=True):
        if flag:
            self._nt = True

    def label(self, *names):
        self._labels.extend(names)

    def count(self, name, n=1):
        self.counters[name] += n

    def fail(self, key, msg='', spec=None):
        raise Mismatch(f'{self.rel} | {key}', msg, spec)

    def check(self, cond, key, msg='', spec=None):
        if not cond:
            self.fail(key, msg() if callable(msg) else msg, spec)

    def add_enumerated(self, evaluations, nontrivial, sample=None):
        """Batched enumeration: cases distinct by construction."""
        self.evaluations += evaluations
        self.nt_extra += nontrivial
        if sample is not None and len(self.samples) < SAMPLES_PER_TASK:
            self.samples.append(jsonable(sample))

    def is_known(self, key):
        return key in self.known_keys


def classify_exception(exc):
    """Return 'raises T @ file:func' if the traceback passes through the
    regions package under test, else None (harness error)."""
    pkg = repo_pkg_dir()
    where = None
    tb = exc.__traceback__
    while tb is not None:
        fn = os.path.realpath(tb.tb_frame.f_code.co_filename)
        if fn.startswith(pkg) and os.sep + 'tests' + os.sep not in fn:
            where = (fn[len(pkg):], tb.tb_frame.f_code.co_name)
        tb = tb.tb_next
    if where is None:
        return None
    return f'raises {type(exc).__name__} @ {where[0]}:{where[1]}'


class Relation:
    """Base class of a sub-relation."""
    name = None
    examples = {'quick': 200, 'thorough': 2000}
    shards = {'quick': 8, 'thorough': 16}
    budget_s = {'quick': 150, 'thorough': 1500}
    exhaustive = False
    stateful = False

    def strategy(self, tier):
        return None

    def cases(self, tier, shard, nshards):
        """Enumerated (non-Hypothesis) cases; yields specs."""
        return iter(())

    def check(self, spec, ctx):
        raise NotImplementedError

    def machine(self, ctx):
        """For stateful relations: return a RuleBasedStateMachine class."""
        raise NotImplementedError


def _guarded(rel, ctx, spec, suppressed):
    """Run one case; returns normally when it passes / is excluded."""
    from hypothesis.errors import HypothesisException
    if (ctx.deadline is not None and ctx.last_fail is None
            and time.monotonic() > ctx.deadline):
        ctx.budget_exhausted = True
        return
    ctx.begin(spec)
    try:
        with warnings.catch_warnings():
            warnings.simplefilter('ignore')
            rel.check(spec, ctx)
    except Mismatch as m:
        if ctx.is_known(m.key):
            ctx.excluded[m.key] += 1
            return
        if m.key in suppressed:
            return
        ctx.last_fail = (jsonable(spec if m.spec is None else m.spec),
                         m.key, m.msg)
        raise
    except HypothesisException:
        raise
    except HarnessError:
        raise
    except Exception as e:     # noqa: BLE001 - classified below
        sym = classify_exception(e)
        if sym is None:
            raise
        key = f'{ctx.rel} | {sym}'
        if ctx.is_known(key):
            ctx.excluded[key] += 1
            return
        if key in suppressed:
            return
        msg = ''.join(traceback.format_exception_only(type(e), e)).strip()
        ctx.last_fail = (jsonable(spec), key, msg)
        raise Mismatch(key, msg) from e
    ctx.end()


def _task_seed(seed, relname, shard):
    h = hashlib.sha1(f'{seed}/{relname}/{shard}'.encode()).digest()
    return int.from_bytes(h[:6], 'big')


def run_task(args):
    prop, relname, tier, seed, shard, nshards, known_keys, scale = args
    t0 = time.monotonic()
    out = {'relation': relname, 'shard': shard, 'error': None}
    try:
        mod = importlib.import_module(f'vf.props.{prop.lower()}')
        if relname.endswith('@guided'):
            from vf import guided
            rel = next(r for r in mod.RELATIONS
                       if r.name == relname[:-len('@guided')])
            res = guided.run_guided(prop, rel, tier, seed, shard, nshards,
                                    known_keys, scale)
            res['wall_s'] = time.monotonic() - t0
            return res
        rel = next(r for r in mod.RELATIONS if r.name == relname)
        ctx = Ctx(prop, relname, tier, seed, shard, nshards, set(known_keys))
        ctx.deadline = t0 + rel.budget_s.get(tier, 600)
        suppressed = set()
        strat = rel.strategy(tier)
        if rel.stateful:
            _run_stateful(rel, ctx, tier, seed, shard, scale, suppressed)
        elif strat is not None:
            _run_hypothesis(rel, ctx, strat, tier, seed, shard, scale,
                            suppressed)
        else:
            for spec in rel.cases(tier, shard, nshards):
                try:
                    _guarded(rel, ctx, spec, suppressed)
                except Mismatch as m:
                    ctx.failures.append({'key': m.key, 'message': m.msg,
                                         'spec': ctx.last_fail[0]})
                    ctx.last_fail = None
                    suppressed.add(m.key)
                    if len(ctx.failures) >= MAX_ROOT_CAUSES:
                        break
        out.update(evaluations=ctx.evaluations, nt=sorted(ctx.nt),
                   nt_extra=ctx.nt_extra,
                   samples=ctx.samples, labels=dict(ctx.labels),
                   counters=dict(ctx.counters), excluded=dict(ctx.excluded),
                   failures=ctx.failures,
                   budget_exhausted=ctx.budget_exhausted)
    except BaseException as e:   # noqa: BLE001
        out['error'] = ''.join(traceback.format_exception(type(e), e,
                                                          e.__traceback__))
    out['wall_s'] = time.monotonic() - t0
    return out


def _settings(n, stateful_steps=None):
    from hypothesis import HealthCheck, Phase, settings
    kw = dict(max_examples=n, database=None, deadline=None,
              report_multiple_bugs=False, print_blob=False,
              derandomize=False,
              phases=[Phase.generate, Phase.target, Phase.shrink],
              suppress_health_check=[HealthCheck.too_slow,
                                     HealthCheck.data_too_large,
                                     HealthCheck.large_base_example])
    if stateful_steps is not None:
        kw['stateful_step_count'] = stateful_steps
    return settings(**kw)


def _run_hypothesis(rel, ctx, strat, tier, seed, shard, scale, suppressed):
    from hypothesis import given
    from hypothesis import seed as hseed
    n = max(1, int(rel.examples[tier] * scale))
    for attempt in range(MAX_ROOT_CAUSES):
        ctx.last_fail = None

        @hseed(_task_seed(seed, rel.name, shard) + attempt)
        @_settings(n)
        @given(strat)
        def test(spec):
            _guarded(rel, ctx, spec, suppressed)

        try:
            test()
        except Exception:   # noqa: BLE001  (Mismatch, or Flaky wrapping one)
            if ctx.last_fail is None:
                raise
            spec, key, msg = ctx.last_fail
            ctx.failures.append({'key': key, 'message': msg, 'spec': spec})
            suppressed.add(key)
            continue
        break


def _run_stateful(rel, ctx, tier, seed, shard, scale, suppressed):
    from hypothesis import seed as hseed
    from hypothesis.stateful import run_state_machine_as_test
    n = max(1, int(rel.examples[tier] * scale))
    steps = getattr(rel, 'steps', {'quick': 20, 'thorough': 30})[tier]
    for attempt in range(MAX_ROOT_CAUSES):
        ctx.last_fail = None
        ctx.suppressed = suppressed
        machine = rel.machine(ctx)
        try:
            run_state_machine_as_test(
                hseed(_task_seed(seed, rel.name, shard) + attempt)(machine),
                settings=_settings(n, steps))
        except Exception:   # noqa: BLE001
            if ctx.last_fail is None:
                raise
            spec, key, msg = ctx.last_fail
            ctx.failures.append({'key': key, 'message': msg, 'spec': spec})
            suppressed.add(key)
            continue
        break


# ---------------------------------------------------------------------------

def load_known(prop):
    path = os.path.join(HERE, 'known_findings.json')
    try:
        with open(path) as fh:
            data = json.load(fh)
    except OSError:
        return []
    out = []
    for f in data.get('findings', []):
        if f.get('property') != prop or f.get('status', 'known') != 'known':
            continue
        f = dict(f)
        if f.get('keys_file'):
            with open(os.path.join(HERE, f['keys_file'])) as fh:
                f['keys'] = list(f.get('keys', [])) + json.load(fh)['keys']
        out.append(f)
    return out


def run_single(mod, relname, spec, known_keys=()):
    """Run one spec through one relation, no Hypothesis.  Returns
    (key, msg) on mismatch or None."""
    rel = next((r for r in mod.RELATIONS if r.name == relname), None)
    if rel is None:
        raise HarnessError(f'unknown relation {relname}')
    ctx = Ctx(relname.split('.')[0], relname, 'replay', 0, 0, 1, set())
    try:
        _guarded(rel, ctx, spec, set())
    except Mismatch as m:
        return m.key, m.msg
    return None


def write_replay(prop, failure, seed, tier):
    d = os.path.join(HERE, 'failures', prop)
    os.makedirs(d, exist_ok=True)
    rel = failure['relation']
    name = f"{rel}-{digest([failure['key'], failure['spec']])[:10]}.json"
    path = os.path.join(d, name)
    with open(path, 'w') as fh:
        json.dump({'property': prop, 'relation': rel, 'key': failure['key'],
                   'message': failure['message'], 'spec': failure['spec'],
                   'seed': seed, 'tier': tier}, fh, indent=1, sort_keys=True)
    return path


def main(argv=None):
    ap = argparse.ArgumentParser()
    ap.add_argument('prop')
    ap.add_argument('--tier', default=os.environ.get('VERIF_TIER') or 'quick',
                    choices=['quick', 'thorough'])
    ap.add_argument('--replay')
    ap.add_argument('--relation', action='append')
    ap.add_argument('--scale', type=float,
                    default=float(os.environ.get('VERIF_SCALE', '1')))
    ap.add_argument('--jobs', type=int,
                    default=int(os.environ.get('VERIF_JOBS', '16')))
    ap.add_argument('--no-evidence', action='store_true')
    a = ap.parse_args(argv)
    prop = a.prop.upper()
    try:
        seed = int(os.environ.get('VERIF_SEED') or '1')
    except ValueError:
        seed = 1
    t0 = time.monotonic()
    try:
        mod = importlib.import_module(f'vf.props.{prop.lower()}')
    except Exception:   # noqa: BLE001
        traceback.print_exc()
        print(f'HARNESS-ERROR cannot import check module for {prop}')
        return 2

    if a.replay:
        with open(a.replay) as fh:
            rp = json.load(fh)
        try:
            res = run_single(mod, rp['relation'], rp['spec'])
        except Exception:   # noqa: BLE001
            traceback.print_exc()
            print('HARNESS-ERROR during replay')
            return 2
        if res is None:
            print(f'replay passes: {a.replay}')
            return 0
        print(f'replay fails: {res[0]} :: {res[1]}')
        print(f'VIOLATION property={prop} replay={a.replay}')
        return 1

    known = load_known(prop)
    known_keys = sorted({k for f in known for k in f.get('keys', [])})
    violations = []
    harness_errors = []
    known_seen = []

    # 1. replay tier: committed regression cases and known-finding probes ---
    rdir = os.path.join(HERE, 'replays', prop)
    n_replayed = 0
    if os.path.isdir(rdir):
        for fn in sorted(os.listdir(rdir)):
            if not fn.endswith('.json'):
                continue
            with open(os.path.join(rdir, fn)) as fh:
                rp = json.load(fh)
            if a.relation and rp['relation'] not in a.relation:
                continue
            n_replayed += 1
            try:
                res = run_single(mod, rp['relation'], rp['spec'])
            except Exception:   # noqa: BLE001
                harness_errors.append(f'replay {fn}:\n' + traceback.format_exc())
                continue
            if res is not None and res[0] not in known_keys:
                violations.append({'relation': rp['relation'], 'key': res[0],
                                   'message': res[1], 'spec': rp['spec'],
                                   'replay': os.path.join(rdir, fn)})
    for f in known:
        reproduced = 0
        for pr in f.get('probes', []):
            try:
                res = run_single(mod, pr['relation'], pr['spec'])
            except Exception:   # noqa: BLE001
                harness_errors.append('known-finding probe:\n'
                                      + traceback.format_exc())
                continue
            if res is None:
                continue
            if res[0] in f.get('keys', []):
                reproduced += 1
            else:
                violations.append({'relation': pr['relation'], 'key': res[0],
                                   'message': res[1], 'spec': pr['spec']})
        if reproduced:
            known_seen.append({'id': f.get('id'), 'what': f['what'],
                               'probes_reproduced': reproduced,
                               'probes': len(f.get('probes', []))})
            print(f"KNOWN-FINDING: property={prop} {f['what']} "
                  f"[{reproduced}/{len(f.get('probes', []))} probes reproduce]")
        else:
            print(f"NOTE listed finding no longer reproduces: {f['what']}")

    # 2. generated search ----------------------------------------------------
    rels = [r for r in mod.RELATIONS
            if not a.relation or r.name in a.relation
            or r.name + '@guided' in a.relation]
    tasks = []
    for r in rels:
        ns = r.shards[a.tier]
        if a.relation and r.name not in a.relation:
            ns = 0                    # only the guided tier was asked for
        for s in range(ns):
            tasks.append((prop, r.name, a.tier, seed, s, ns, known_keys,
                          a.scale))
        # coverage-guided tier (vf/guided.py), where the relation asks for it
        g = getattr(r, 'guided', {}).get(a.tier)
        if g:
            for s in range(g[0]):
                tasks.append((prop, r.name + '@guided', a.tier, seed, s, g[0],
                              known_keys, a.scale))
    results = []
    if tasks:
        # parent-side watchdog: a worker stuck inside compiled code cannot be
        # interrupted from within; after the deadline the pool is terminated
        # and the unfinished shards are reported as inconclusive (exit 2)
        limit = max(r.budget_s.get(a.tier, 600) for r in rels) * 2 + 120
        ctxmp = multiprocessing.get_context('fork')
        pool = ctxmp.Pool(min(a.jobs, len(tasks)), maxtasksperchild=1)
        try:
            pending = [(t, pool.apply_async(run_task, (t,))) for t in tasks]
            t_end = time.monotonic() + limit
            for t, ar in pending:
                try:
                    results.append(ar.get(max(0.1, t_end - time.monotonic())))
                except multiprocessing.TimeoutError:
                    harness_errors.append(
                        f'{t[1]} shard {t[4]}: no result within {limit}s '
                        '(worker hung or far over budget) - inconclusive')
        finally:
            pool.terminate()
            pool.join()
    results.sort(key=lambda r: (r['relation'], r['shard']))

    by_rel = collections.OrderedDict()
    nt_all = set()
    samples = []
    excluded = collections.Counter()
    evaluations = 0
    budget = False
    nt_extra_all = 0
    for res in results:
        if res['error']:
            harness_errors.append(f"{res['relation']} shard {res['shard']}:\n"
                                  + res['error'])
            continue
        br = by_rel.setdefault(res['relation'], {
            'evaluations': 0, 'nt': set(), 'nt_extra': 0,
            'labels': collections.Counter(),
            'counters': collections.Counter(), 'wall_s': 0.0})
        br['evaluations'] += res['evaluations']
        br['nt'].update(res['nt'])
        br['nt_extra'] += res['nt_extra']
        br['labels'].update(res['labels'])
        br['counters'].update(res['counters'])
        br['wall_s'] = max(br['wall_s'], res['wall_s'])
        evaluations += res['evaluations']
        nt_extra_all += res['nt_extra']
        nt_all.update((res['relation'], d) for d in res['nt'])
        for s in res['samples']:
            if sum(1 for x in samples if x['relation'] == res['relation']) < 2:
                samples.append({'relation': res['relation'], 'case': s})
        excluded.update(res['excluded'])
        budget = budget or res['budget_exhausted']
        for f in res['failures']:
            f = dict(f, relation=res['relation'].split('@')[0])
            violations.append(f)

    # distinct root causes by key
    seen = {}
    for v in violations:
        seen.setdefault(v['key'], v)
    violations = list(seen.values())
    for v in violations:
        if 'replay' not in v:
            v['replay'] = write_replay(prop, v, seed, a.tier)

    wall = time.monotonic() - t0
    for name, br in by_rel.items():
        print(f"  {name}: cases={br['evaluations']} nontrivial={len(br['nt']) + br['nt_extra']} "
              f"max_shard_wall={br['wall_s']:.1f}s "
              + ' '.join(f'{k}={v}' for k, v in sorted(br['counters'].items())))
    if excluded:
        items = sorted(excluded.items())
        print(f'  excluded-known: {sum(excluded.values())} hits on '
              f'{len(items)} listed keys, e.g. {items[0][0]}')

    if not a.no_evidence:
        ev = {
            'property_id': prop, 'tier': a.tier, 'seed': seed,
            'level': getattr(mod, 'LEVEL', 'exploration'),
            'coverage': {
                'evaluations': evaluations,
                'distinct_nontrivial': len(nt_all) + nt_extra_all,
                'rule': getattr(mod, 'RULE', ''),
                'samples': samples[:24],
                'exhaustive': bool(getattr(mod, 'EXHAUSTIVE_NOTE', None))
                and all(r.exhaustive for r in rels),
                'exhaustive_subspaces': getattr(mod, 'EXHAUSTIVE_NOTE', None),
                'by_relation': {
                    n: {'evaluations': br['evaluations'],
                        'distinct_nontrivial': len(br['nt']) + br['nt_extra'],
                        'class_distribution': dict(sorted(br['labels'].items())),
                        'counters': dict(sorted(br['counters'].items()))}
                    for n, br in by_rel.items()},
                'replayed_regressions': n_replayed,
                'excluded_known': {
                    'hits': sum(excluded.values()),
                    'distinct_keys': len(excluded),
                    'sample_keys': sorted(excluded)[:5]},
                'known_findings_seen': known_seen,
                'budget_exhausted_inconclusive': budget,
                'relations_selected': [r.name for r in rels],
            },
            'assumptions': list(getattr(mod, 'ASSUMPTIONS', [])),
            'wall_s': round(wall, 2),
            'violations': len(violations),
        }
        if harness_errors:
            ev['coverage']['harness_errors'] = len(harness_errors)
        path = os.path.join(HERE, 'evidence', f'{prop}.json')
        os.makedirs(os.path.dirname(path), exist_ok=True)
        tmp = path + f'.{os.getpid()}'
        with open(tmp, 'w') as fh:
            json.dump(ev, fh, indent=1, sort_keys=True)
        os.replace(tmp, path)

    print(f'{prop} tier={a.tier} seed={seed}: cases={evaluations} '
          f'distinct_nontrivial={len(nt_all) + nt_extra_all} violations={len(violations)} '
          f'wall={wall:.1f}s')
    for v in violations:
        print(f"  finding-key: {v['key']} :: {str(v['message'])[:300]}")
        print(f"VIOLATION property={prop} replay={v['replay']}")
    if harness_errors:
        for h in harness_errors:
            print('HARNESS-ERROR ' + h)
    if violations:
        return 1
    if harness_errors:
        return 2
    # vacuity guard: a relation that claims cases but has no non-trivial one
    for name, br in by_rel.items():
        if name.endswith('@guided'):
            continue       # (an add-on to the relation's own random tier)
        if br['evaluations'] and not (br['nt'] or br['nt_extra']):
            print(f'HARNESS-ERROR relation {name} produced no non-trivial case')
            return 2
    return 0


if __name__ == '__main__':
    sys.exit(main())
