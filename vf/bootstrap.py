"""Idempotent offline bootstrap, run by ./check and setup.sh before anything
imports ``regions``.

1. third-party deps from the offline wheelhouse: hypothesis into the
   interpreter's own site-packages when missing; mpmath (+ atheris, best
   effort) into /verif/.deps;
2. compiled kernels: every ``regions/_geometry/*.c`` whose content differs
   from the stamp recorded for the built ``.so`` (or that is newer than its
   ``.so`` when no stamp exists) is recompiled in place with gcc.  Cython is
   not available offline, so a ``.pyx`` edit cannot be translated; it is
   reported as a NOTE and the built kernel is what gets checked.
"""
import hashlib
import importlib.util
import json
import os
import subprocess
import sys
import sysconfig

HERE = os.path.dirname(os.path.dirname(os.path.abspath(__file__)))
WHEELS = '/opt/veriftools/wheels'
DEPS = os.path.join(HERE, '.deps')
CACHE = os.path.join(HERE, '.cache')


def repo_root():
    return os.environ.get('VERIF_REPO_SRC', '/repo')


def _pip(args):
    cmd = [sys.executable, '-m', 'pip', 'install', '-q', '--no-index',
           '--find-links', WHEELS, '--disable-pip-version-check'] + args
    return subprocess.run(cmd, stdout=subprocess.PIPE, stderr=subprocess.STDOUT,
                          text=True)


def ensure_deps():
    os.makedirs(DEPS, exist_ok=True)
    if importlib.util.find_spec('hypothesis') is None:
        r = _pip(['hypothesis'])
        if r.returncode != 0:
            print('HARNESS-ERROR cannot install hypothesis:\n' + r.stdout)
            return False
    if not os.path.isdir(os.path.join(DEPS, 'mpmath')):
        r = _pip(['--target', DEPS, 'mpmath'])
        if r.returncode != 0:
            print('HARNESS-ERROR cannot install mpmath:\n' + r.stdout)
            return False
    if (not os.environ.get('VERIF_NO_ATHERIS')
            and not os.path.isdir(os.path.join(DEPS, 'atheris'))):
        # best effort: without it the coverage-guided shards report
        # 'skipped_no_atheris' and the random tiers decide alone
        r = _pip(['--target', DEPS, 'atheris'])
        if r.returncode != 0:
            print('NOTE atheris not installable; coverage-guided tier skipped')
    return True


def _sha(path):
    h = hashlib.sha256()
    with open(path, 'rb') as fh:
        h.update(fh.read())
    return h.hexdigest()


def rebuild_ext(geom_dir=None, stamp_name='ext_stamps.json', quiet=False):
    """Recompile stale ``_geometry`` kernels of the tree in *geom_dir*."""
    if geom_dir is None:
        src = os.environ.get('VERIF_REPO') or repo_root()
        geom_dir = os.path.join(src, 'regions', '_geometry')
    os.makedirs(CACHE, exist_ok=True)
    stamp_file = os.path.join(CACHE, stamp_name)
    try:
        with open(stamp_file) as fh:
            stamps = json.load(fh)
    except (OSError, ValueError):
        stamps = {}
    import numpy
    suffix = sysconfig.get_config_var('EXT_SUFFIX')
    inc = ['-I' + sysconfig.get_paths()['include'], '-I' + numpy.get_include()]
    procs = []
    notes = []
    for name in ('core', 'circular_overlap', 'elliptical_overlap',
                 'rectangular_overlap', 'polygonal_overlap', 'pnpoly'):
        cfile = os.path.join(geom_dir, name + '.c')
        so = os.path.join(geom_dir, name + suffix)
        pyx = os.path.join(geom_dir, name + '.pyx')
        if not os.path.exists(cfile):
            continue
        key = os.path.abspath(cfile)
        csha = _sha(cfile)
        rec = stamps.get(key, {})
        if os.path.exists(pyx):
            psha = _sha(pyx)
            if rec.get('pyx') and rec['pyx'] != psha and rec.get('c') == csha:
                notes.append(f'NOTE {name}.pyx changed but {name}.c did not; '
                             'Cython is unavailable offline, the built kernel '
                             'is what is checked')
        else:
            psha = None
        stale = False
        if not os.path.exists(so):
            stale = True
        elif rec.get('c'):
            stale = rec['c'] != csha
        else:
            stale = os.path.getmtime(cfile) > os.path.getmtime(so) + 1.0
        if stale:
            tmp = so + '.verif-tmp'
            cmd = ['gcc', '-O2', '-shared', '-fPIC', '-fno-strict-aliasing',
                   '-w'] + inc + [cfile, '-o', tmp, '-lm']
            procs.append((name, so, tmp, key, csha, psha,
                          subprocess.Popen(cmd, stdout=subprocess.PIPE,
                                           stderr=subprocess.STDOUT, text=True)))
        else:
            if rec.get('c') != csha:
                stamps[key] = {'c': csha, 'pyx': psha}
    ok = True
    for name, so, tmp, key, csha, psha, p in procs:
        out, _ = p.communicate()
        if p.returncode != 0:
            print(f'HARNESS-ERROR cannot rebuild {name}: {out[-2000:]}')
            ok = False
            continue
        os.replace(tmp, so)
        stamps[key] = {'c': csha, 'pyx': psha}
        if not quiet:
            print(f'NOTE rebuilt kernel {name} from its .c file')
    for n in notes:
        print(n)
    tmpf = stamp_file + f'.{os.getpid()}'
    with open(tmpf, 'w') as fh:
        json.dump(stamps, fh, indent=1, sort_keys=True)
    os.replace(tmpf, stamp_file)
    return ok


def main():
    if not ensure_deps():
        return 2
    if not rebuild_ext():
        return 2
    return 0


if __name__ == '__main__':
    sys.exit(main())
