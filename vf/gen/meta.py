"""Per-format metadata/visual vocabularies as Hypothesis strategies."""
from hypothesis import strategies as st

DS9_FLAGS = ['select', 'highlite', 'fixed', 'edit', 'move', 'delete', 'rotate',
             'source', 'background']
TEXTS = ['abc', 'a b', 'two  spaces', 'semi;colon', 'hash # tag', 'k=v',
         'mixed; a=b # c', 'M 31', 'x', 'Text', 'image', 'circle(1,2,3)',
         'UPPER lower', "it's", 'say "hi"', '-5 deg', 'global color=red',
         # delimiter characters inside the string (DS9 offers {} "" '')
         'a}', '{x}', 'a{b}c', '}', '"quoted"', "'q'", ' lead', 'trail ',
         '30"', 'x # y {z}', 'a}"',
         # characters outside ASCII
         'Sgr A\u2605', 'caf\u00e9 au lait', '\u03b1 Cen', '5\u2033 N',
         # characters that str.splitlines() takes for line ends, DS9 does not
         'NGC 1234\u2028field A', 'a\x0bb', 'x\x85y', 'form\x0cfeed',
         'p\u2029q', 'fs\x1cgs\x1drs\x1e']
NUMERIC_TEXTS = ['007', '42', '1e3', '3.50', '-0', 'nan', 'inf', '0x10', '1_000']
COLORS = ['red', 'green', 'blue', 'cyan', 'magenta', 'yellow', 'black',
          'white', '#ff00aa', '#0F0', '#123456']
OUTLINE = ('Circle', 'Ellipse', 'Rectangle', 'Polygon', 'RegularPolygon',
           'CircleAnnulus', 'EllipseAnnulus', 'RectangleAnnulus')


def shape_of(cls):
    return cls.replace('PixelRegion', '').replace('SkyRegion', '')


def ds9_meta(numeric_text=False):
    """(meta, flags) entries valid for every shape."""
    texts = TEXTS + (NUMERIC_TEXTS if numeric_text else [])
    return st.fixed_dictionaries({}, optional={
        'text': st.sampled_from(texts),
        'tag': st.lists(st.sampled_from(['t1', 't 2', 'Group A', 'x=y', 'bkg',
                                         'a}b', '{t}', '"q"']),
                        min_size=1, max_size=3),
        'include': st.sampled_from([True, False, 1, 0]),
        'select': st.sampled_from([0, 1]),
        'highlite': st.sampled_from([0, 1]),
        'fixed': st.sampled_from([0, 1]),
        'edit': st.sampled_from([0, 1]),
        'move': st.sampled_from([0, 1]),
        'delete': st.sampled_from([0, 1]),
        'rotate': st.sampled_from([0, 1]),
        'source': st.sampled_from([0, 1]),
        'background': st.sampled_from([0, 1]),
    })


def ds9_visual(cls):
    """Visual dictionary expressible in DS9 for the given region class."""
    shp = shape_of(cls)
    font = st.fixed_dictionaries({
        'fontname': st.sampled_from(['helvetica', 'times', 'courier']),
        'fontsize': st.integers(6, 30),
        'fontweight': st.sampled_from(['normal', 'bold']),
        'fontstyle': st.sampled_from(['normal', 'italic'])})
    opt = {'linewidth': st.integers(1, 6),
           'linestyle': st.sampled_from([
               'dashed', {'__tuple__': [0, {'__tuple__': [8, 3]}]},
               {'__tuple__': [0, {'__tuple__': [4, 2]}]}])}
    if shp in OUTLINE:
        opt['_color'] = st.sampled_from(COLORS)     # -> facecolor+edgecolor
        if shp in ('Circle', 'Ellipse', 'Rectangle', 'Polygon',
                   'RegularPolygon'):
            opt['fill'] = st.just(True)
    else:
        opt['color'] = st.sampled_from(COLORS)
    if shp == 'Point':
        opt = {'color': st.sampled_from(COLORS),
               'marker': st.sampled_from(['o', 's', 'D', 'x', '+']),
               'markersize': st.one_of(st.integers(3, 30),
                                       st.sampled_from([12.0, 7.0, 20.0])),
               'markeredgewidth': st.integers(1, 4)}
    if shp == 'Text':
        opt = {'color': st.sampled_from(COLORS),
               'rotation': st.sampled_from([0, 30, 45.5, -10, 270])}

    def fix(t):
        d, f = t
        d = dict(d)
        c = d.pop('_color', None)
        if c is not None:
            d['facecolor'] = c
            d['edgecolor'] = c
        if 'markersize' in d and 'marker' not in d:
            d['marker'] = 'o'
        if f is not None:
            d.update(f)
        return {k: (list(v) if False else v) for k, v in d.items()}
    return st.tuples(st.fixed_dictionaries({}, optional=opt),
                     st.one_of(st.none(), font)).map(fix)
