"""Query coordinates drawn *relative to a region spec* so that inside, outside
and near-boundary positions are all frequent at every scale."""
import math

import numpy as np
from hypothesis import strategies as st

from vf.ref.geometry import polygon_vertices, regular_polygon_vertices
from vf.spec import angle_rad_reduced

# relative radial offsets from the boundary (negative = towards the centre)
OFFSETS = [-0.9, -0.5, -0.1, -1e-3, -1e-6, -1e-9, -1e-12, 0.0,
           1e-12, 1e-9, 1e-6, 1e-3, 0.1, 0.5, 2.0, 30.0]


def query_strategy(max_points=64):
    pt = st.tuples(st.floats(0, 1, exclude_max=True),
                   st.integers(0, len(OFFSETS) - 1),
                   st.floats(0, 1, exclude_max=True))
    # choice fields first, bulk last: Hypothesis zeroes late draws more often
    return st.fixed_dictionaries({
        'layout': st.sampled_from(['1d', 'scalar', 'empty', '1d', 'scalar',
                                   '2d', '3d', 'bcast', 'len1', 'fortran',
                                   'transposed', 'strided']),
        'dtype': st.sampled_from(['float', 'float', 'float', 'float', 'int',
                                  'int', 'int32', 'int16', 'uint8', 'uint16',
                                  'float32']),
        'dense': st.booleans(),
        'pts': st.lists(pt, min_size=6, max_size=max_points),
    })


def _rot(spec):
    a = spec.get('angle')
    th = angle_rad_reduced(a) if a else 0.0
    return math.cos(th), math.sin(th)


def _box_boundary(t, a, b):
    """Point on the boundary of [-a, a] x [-b, b], t in [0, 1)."""
    per = 4 * (a + b)
    s = t * per
    if s < 2 * a:
        return -a + s, -b
    s -= 2 * a
    if s < 2 * b:
        return a, -b + s
    s -= 2 * b
    if s < 2 * a:
        return a - s, b
    s -= 2 * a
    return -a, b - s


def boundary_point(spec, t, pick):
    """(centre, boundary point) of a leaf spec; *pick* in [0, 1) selects
    inner/outer for annuli."""
    cls = spec['cls']
    if cls in ('PolygonPixelRegion', 'RegularPolygonPixelRegion'):
        if cls == 'PolygonPixelRegion':
            vx, vy = polygon_vertices(spec)
        else:
            vx, vy = regular_polygon_vertices(spec)
        n = len(vx)
        k = int(t * n) % n
        f = t * n - int(t * n)
        j = (k + 1) % n
        bx = vx[k] + f * (vx[j] - vx[k])
        by = vy[k] + f * (vy[j] - vy[k])
        return (float(np.mean(vx)), float(np.mean(vy))), (float(bx), float(by))
    if cls == 'LinePixelRegion':
        s, e = spec['start'], spec['end']
        return (s[0], s[1]), (s[0] + t * (e[0] - s[0]) + 0.5,
                              s[1] + t * (e[1] - s[1]))
    cx, cy = map(float, spec['center'])
    if cls in ('PointPixelRegion', 'TextPixelRegion'):
        return (cx, cy), (cx + math.cos(2 * math.pi * t),
                          cy + math.sin(2 * math.pi * t))
    c, s = _rot(spec)
    if cls == 'CirclePixelRegion':
        a = b = float(spec['radius'])
        kind = 'e'
    elif cls == 'CircleAnnulusPixelRegion':
        a = b = float(spec['inner_radius'] if pick < 0.5
                      else spec['outer_radius'])
        kind = 'e'
    elif cls in ('EllipsePixelRegion', 'RectanglePixelRegion'):
        a, b = spec['width'] / 2.0, spec['height'] / 2.0
        kind = 'e' if cls[0] == 'E' else 'r'
    else:
        p = 'inner' if pick < 0.5 else 'outer'
        a, b = spec[p + '_width'] / 2.0, spec[p + '_height'] / 2.0
        kind = 'e' if cls[0] == 'E' else 'r'
    if kind == 'e':
        u, v = a * math.cos(2 * math.pi * t), b * math.sin(2 * math.pi * t)
    else:
        u, v = _box_boundary(t, a, b)
    return (cx, cy), (cx + c * u - s * v, cy + s * u + c * v)


def _leaves(spec):
    if spec['cls'] != 'CompoundPixelRegion':
        return [spec]
    return _leaves(spec['r1']) + _leaves(spec['r2'])


def materialise(spec, q):
    """Return (x, y) numpy arrays / scalars for the query *q* about *spec*."""
    lv = _leaves(spec)
    xs, ys = [], []
    dense = q.get('dense') and q['layout'] not in ('scalar', 'len1', 'empty')
    for (t, oi, pick) in q['pts']:
        leaf = lv[int(pick * len(lv)) % len(lv)]
        (cx, cy), (bx, by) = boundary_point(leaf, t, (pick * 7.0) % 1.0)
        for s in (OFFSETS if dense else [OFFSETS[oi]]):
            xs.append(cx + (bx - cx) * (1.0 + s))
            ys.append(cy + (by - cy) * (1.0 + s))
    x = np.array(xs, float)
    y = np.array(ys, float)
    if q['dtype'] == 'int':
        x = np.round(x).astype(np.int64)
        y = np.round(y).astype(np.int64)
    elif q['dtype'] == 'float32':
        x, y = x.astype(np.float32), y.astype(np.float32)
    elif q['dtype'] != 'float':
        # narrow and unsigned integer arrays (indices of small images):
        # the positions are moved into the range of the type
        info = np.iinfo(q['dtype'])
        x = np.clip(np.round(x), info.min, info.max).astype(q['dtype'])
        y = np.clip(np.round(y), info.min, info.max).astype(q['dtype'])
    lay = q['layout']
    n = len(x)
    if lay == 'scalar':
        return x[0].item(), y[0].item()
    if lay == 'empty':
        return x[:0], y[:0]
    if lay == 'len1':
        return x[:1], y[:1]
    if lay == '1d':
        return x, y
    if lay in ('fortran', 'transposed'):
        # same values as a 2-D query, but not C-contiguous in memory
        k = max(2, int(math.sqrt(n)))
        m = max(2, -(-n // k))
        idx = np.arange(k * m) % n
        X, Y = x[idx].reshape(k, m), y[idx].reshape(k, m)
        if lay == 'fortran':
            return np.asfortranarray(X), np.asfortranarray(Y)
        return np.ascontiguousarray(X.T).T, np.ascontiguousarray(Y.T).T
    if lay == 'strided':
        xx = np.repeat(x, 2)
        yy = np.repeat(y, 2)
        return xx[::2], yy[::2]
    if lay == '2d':
        k = max(1, int(math.sqrt(n)))
        m = -(-n // k)
        idx = np.arange(k * m) % n
        return x[idx].reshape(k, m), y[idx].reshape(k, m)
    if lay == '3d':
        k = 2
        m = max(1, -(-n // 4))
        idx = np.arange(2 * 2 * m) % n
        return x[idx].reshape(2, 2, m), y[idx].reshape(2, 2, m)
    if lay == 'bcast':
        k = max(1, n // 2)
        return x[:k].reshape(k, 1), y[:max(1, n - k)].reshape(1, -1)
    raise ValueError(lay)
