"""Hypothesis strategies producing pixel-region *specs* (see vf/spec.py).

Construction, not rejection: annulus outers are inner*(1+delta); polygons are
built from polar coordinates; aligned families put extremes on pixel edges.
"""
import math

from hypothesis import strategies as st

UNITS = ['deg', 'rad', 'arcmin', 'arcsec', 'hourangle']
UNIT_PER_DEG = {'deg': 1.0, 'rad': math.pi / 180, 'arcmin': 60.0,
                'arcsec': 3600.0, 'hourangle': 1 / 15.0}


def sizes(lo=1e-3, hi=1e6):
    """Positive sizes: log-uniform over the decades plus 'nice' values."""
    llo, lhi = math.log10(lo), math.log10(hi)
    nice = [v for v in (0.25, 0.5, 1, 1.5, 2, 2.5, 3, 4, 5, 7.5, 8, 10, 12.5,
                        16, 20, 33, 64, 100) if lo <= v <= hi]
    parts = [st.floats(llo, lhi).map(lambda e: float(10.0 ** e))]
    if nice:
        parts.append(st.sampled_from(nice).map(float))
        parts.append(st.integers(1, 400).map(lambda k: k / 8.0).filter(
            lambda v: lo <= v <= hi))
    return st.one_of(parts)


def coord1(mode='any', spread=300.0):
    aligned = st.integers(-320, 320).map(lambda k: k / 8.0)
    uniform = st.floats(-spread, spread, allow_nan=False)
    far = st.tuples(st.sampled_from([-1.0, 1.0]), st.floats(4, 6)).map(
        lambda t: t[0] * 10.0 ** t[1])
    farint = st.integers(-10**6, 10**6).map(lambda k: k + 0.5 * (k % 2))
    if mode == 'aligned':
        return aligned
    if mode == 'near':
        return st.one_of(uniform, aligned)
    return st.one_of(uniform, aligned, far, farint)


def centers(mode='any', spread=300.0):
    return st.tuples(coord1(mode, spread), coord1(mode, spread)).map(list)


def angles(allow_none=True):
    nice = st.integers(-48, 48).map(lambda k: 15.0 * k)
    uni = st.floats(-720, 720, allow_nan=False)
    huge = st.tuples(st.sampled_from([-1.0, 1.0]), st.floats(3, 7)).map(
        lambda t: t[0] * 10.0 ** t[1])
    deg = st.one_of(nice, uni, uni, huge)

    def mk(t):
        d, unit, kind = t
        v = d * UNIT_PER_DEG[unit]
        if unit == 'hourangle' and kind == 'Angle':
            pass
        return [float(v), unit, kind]

    full = st.tuples(deg, st.sampled_from(UNITS),
                     st.sampled_from(['Quantity', 'Angle'])).map(mk)
    if allow_none:
        # explicit weighting: one_of() de-duplicates repeated branches
        return st.tuples(st.integers(0, 5), full).map(
            lambda t: None if t[0] == 0 else t[1])
    return full


def include_meta():
    """meta dict or None; include in {absent, True, False, 1, 0}."""
    return st.sampled_from([None, None, {}, {'include': True},
                            {'include': False}, {'include': 1},
                            {'include': 0}, {'include': False, 'text': 'x'}])


NUMS = st.sampled_from(['float', 'float', 'int', 'np.float64', 'np.int64'])


def _with_common(d, meta=True):
    base = dict(d)
    if meta:
        base['meta'] = include_meta()
    base['num'] = NUMS
    # 'assign': constructed from other values, then every field assigned
    base['build'] = st.sampled_from(['direct', 'direct', 'direct', 'direct',
                                     'assign', 'assign', 'reuse', 'inplace'])
    return st.fixed_dictionaries(base)


def circle(sz, cmode='any', meta=True):
    return _with_common({'cls': st.just('CirclePixelRegion'),
                         'center': centers(cmode), 'radius': sz}, meta)


def _ratio_pair(sz, max_ratio=100.0):
    lr = math.log10(max_ratio)
    # (beyond 1:100 the second size stays within 1e-3 .. 1e6 px, the range
    # the size quantifiers name)
    clip = (lambda v: min(max(v, 1e-3), 1e6)) if max_ratio > 100.0 else float
    usual = st.tuples(sz, st.one_of(st.floats(-lr, lr), st.just(0.0),
                                    st.floats(-0.3, 0.3),
                                    st.floats(-min(lr, 2.0), min(lr, 2.0)))).map(
        lambda t: (t[0], float(clip(t[0] * 10.0 ** t[1]))))
    if max_ratio <= 100.0:
        return usual
    # the two sizes drawn independently, and needle-like pairs from the two
    # ends of the size range
    tiny = st.floats(-3.0, -1.5).map(lambda e: 10.0 ** e)
    huge = st.floats(4.0, 6.0).map(lambda e: 10.0 ** e)
    return st.one_of(usual, usual, st.tuples(sz, sz),
                     st.tuples(tiny, huge), st.tuples(huge, tiny))


def ellipse(sz, cmode='any', meta=True, cls='EllipsePixelRegion',
            max_ratio=100.0):
    def mk(t):
        (w, h), d = t
        d = dict(d)
        d['width'], d['height'] = w, h
        return d
    return st.tuples(_ratio_pair(sz, max_ratio), _with_common(
        {'cls': st.just(cls), 'center': centers(cmode),
         'angle': angles()}, meta)).map(mk)


def rectangle(sz, cmode='any', meta=True, max_ratio=100.0):
    return ellipse(sz, cmode, meta, 'RectanglePixelRegion', max_ratio)


def polygon(sz, cmode='any', meta=True, max_vertices=12, simple_only=False,
            revisits=True):
    """Convex, star-shaped and (unless simple_only) self-intersecting; with
    ``revisits`` also outlines that pass through a vertex more than once
    without crossing themselves: 'closed' (first vertex repeated at the end,
    as region files often have it) and 'keyhole' (outer ring, bridge, inner
    ring the other way round, back over the bridge - a hole; even-odd and
    non-zero winding agree on it)."""
    def mk(t):
        c, r, n, kind, ths, rads, d, origin = t
        ths = sorted(ths[:n])
        # spread the angles so that no two coincide
        ths = [(k + 0.1 + 0.8 * f) * 2 * math.pi / n for k, f in enumerate(ths)]
        if kind == 'convex':
            rr = [r] * n
        elif kind == 'star':
            rr = [r * (0.25 + 0.75 * q) for q in rads[:n]]
        elif kind in ('closed', 'keyhole'):
            rr = [r * (0.4 + 0.6 * q) for q in rads[:n]]
        else:   # 'wild': shuffle the angular order -> self-intersections
            rr = [r * (0.25 + 0.75 * q) for q in rads[:n]]
            ths = ths[::2] + ths[1::2]
        vx = [c[0] + a * math.cos(th) for a, th in zip(rr, ths)]
        vy = [c[1] + a * math.sin(th) for a, th in zip(rr, ths)]
        if kind == 'closed':
            vx, vy = vx + vx[:1], vy + vy[:1]
        elif kind == 'keyhole':
            ri = [a * (0.2 + 0.4 * q) for a, q in zip(rr, rads[::-1])]
            ix = [c[0] + a * math.cos(th) for a, th in zip(ri, ths)]
            iy = [c[1] + a * math.sin(th) for a, th in zip(ri, ths)]
            vx = vx + vx[:1] + ix[:1] + ix[:0:-1] + ix[:1]
            vy = vy + vy[:1] + iy[:1] + iy[:0:-1] + iy[:1]
        d = dict(d)
        if origin is not None:
            vx = [v - origin[0] for v in vx]
            vy = [v - origin[1] for v in vy]
            d['origin'] = origin
        d['vertices'] = [vx, vy]
        d['shape_kind'] = kind
        return d
    kinds = ['convex', 'star'] if simple_only else ['convex', 'star', 'wild']
    if revisits:
        kinds = kinds + ['closed', 'keyhole']
    unit = st.floats(0, 1, allow_nan=False)
    return st.tuples(
        centers(cmode), sz, st.integers(3, max_vertices),
        st.sampled_from(kinds),
        st.lists(unit, min_size=max_vertices, max_size=max_vertices),
        st.lists(unit, min_size=max_vertices, max_size=max_vertices),
        _with_common({'cls': st.just('PolygonPixelRegion')}, meta),
        st.one_of(st.none(), st.none(), centers('aligned'))).map(mk)


def dense_polygon(meta=True):
    """A finely sampled outline (a digitised curve): 1200-1500 vertices on a
    slightly wavy circle of radius 0.05-0.3 px, so that consecutive edges are
    almost - never exactly - collinear."""
    def mk(t):
        d, n, r, cx, cy, k, amp = t
        th = [2 * math.pi * i / n for i in range(n)]
        rad = [r * (1 + amp * math.sin(k * a)) for a in th]
        return dict(d, vertices=[[cx + q * math.cos(a) for q, a in zip(rad, th)],
                                 [cy + q * math.sin(a) for q, a in zip(rad, th)]],
                    shape_kind='dense', build='direct')
    return st.tuples(_with_common({'cls': st.just('PolygonPixelRegion')}, meta),
                     st.integers(1200, 1500), st.floats(0.05, 0.3),
                     coord1('near'), coord1('near'), st.integers(2, 5),
                     st.floats(0.0, 0.2)).map(mk)


def grid_polygon(meta=True, max_vertices=8):
    """Polygons with vertices on the 1/2-pixel lattice (edges through pixel
    centres and along pixel edges)."""
    pt = st.tuples(st.integers(-24, 24), st.integers(-24, 24))
    return st.tuples(
        st.lists(pt, min_size=3, max_size=max_vertices, unique=True),
        _with_common({'cls': st.just('PolygonPixelRegion')}, meta)).map(
        lambda t: dict(t[1], vertices=[[p[0] / 2.0 for p in t[0]],
                                       [p[1] / 2.0 for p in t[0]]],
                       shape_kind='grid'))


INT_TEMPLATES = [
    [(0, 0), (4, 0), (0, 3)],
    [(0, 0), (5, 0), (5, 4), (0, 4)],
    [(0, 0), (6, 0), (6, 4), (3, 7), (0, 4)],
    [(0, 0), (4, 1), (6, 5), (2, 6), (-1, 3)],
    [(0, 0), (6, 0), (6, 2), (2, 2), (2, 6), (0, 6)],       # L shape
    [(1, 0), (3, 2), (5, 0), (6, 1), (4, 3), (6, 5), (5, 6), (3, 4), (1, 6),
     (0, 5), (2, 3), (0, 1)],                               # X shape
    # self-intersecting outlines whose two lobes have opposite sense and
    # equal area: the signed (shoelace) area is exactly 0, the region is not
    # empty (even-odd and non-zero winding agree: each lobe winds once)
    [(0, 0), (6, 6), (6, 0), (0, 6)],                       # bow-tie
    [(0, 0), (4, 0), (0, 4), (4, 4)],                       # hourglass
    [(0, 0), (8, 4), (8, 0), (0, 4)],                       # flat bow-tie
]


def int_polygon(meta=True):
    """Simple polygons whose vertices are whole numbers held in an INTEGER
    array (what PixCoord([10, 40, 25], [10, 10, 30]) gives)."""
    def mk(t):
        d, tpl, k, sx, sy, rev = t
        pts = [(k * x + sx, k * y + sy) for x, y in INT_TEMPLATES[tpl]]
        if rev:
            pts = pts[::-1]
        return dict(d, vertices=[[float(p[0]) for p in pts],
                                 [float(p[1]) for p in pts]],
                    shape_kind='int', num='int' if k % 2 else 'np.int64')
    return st.tuples(_with_common({'cls': st.just('PolygonPixelRegion')}, meta),
                     st.integers(0, len(INT_TEMPLATES) - 1),
                     st.integers(1, 12), st.integers(-60, 60),
                     st.integers(-60, 60), st.booleans()).map(mk)


def regular_polygon(sz, cmode='any', meta=True, max_vertices=12):
    return _with_common({'cls': st.just('RegularPolygonPixelRegion'),
                         'center': centers(cmode),
                         'nvertices': st.integers(3, max_vertices),
                         'radius': sz, 'angle': angles()}, meta)


def _delta():
    return st.one_of(st.floats(1e-3, 3.0), st.sampled_from([0.5, 1.0, 0.25]))


def circle_annulus(sz, cmode='any', meta=True):
    def mk(t):
        d, dl = t
        d = dict(d)
        d['outer_radius'] = float(d['inner_radius'] * (1 + dl))
        return d
    return st.tuples(_with_common({'cls': st.just('CircleAnnulusPixelRegion'),
                                   'center': centers(cmode),
                                   'inner_radius': sz}, meta), _delta()).map(mk)


def asym_annulus(cls, sz, cmode='any', meta=True, max_ratio=100.0):
    def mk(t):
        (w, h), d, d1, d2 = t
        d = dict(d)
        d['inner_width'], d['inner_height'] = w, h
        d['outer_width'] = float(w * (1 + d1))
        d['outer_height'] = float(h * (1 + d2))
        return d
    return st.tuples(_ratio_pair(sz, max_ratio), _with_common(
        {'cls': st.just(cls), 'center': centers(cmode), 'angle': angles()},
        meta), _delta(), _delta()).map(mk)


def point(cmode='any', meta=True):
    return _with_common({'cls': st.just('PointPixelRegion'),
                         'center': centers(cmode)}, meta)


def line(cmode='any', meta=True):
    return _with_common({'cls': st.just('LinePixelRegion'),
                         'start': centers(cmode), 'end': centers(cmode)}, meta)


def text(cmode='any', meta=True):
    return _with_common({'cls': st.just('TextPixelRegion'),
                         'center': centers(cmode),
                         'text': st.sampled_from(['a', 'hello world', ''])},
                        meta)


def maskable(sz, cmode='any', meta=True, max_ratio=100.0, annuli=True,
             max_vertices=12):
    parts = [circle(sz, cmode, meta), ellipse(sz, cmode, meta,
                                             max_ratio=max_ratio),
             rectangle(sz, cmode, meta, max_ratio),
             polygon(sz, cmode, meta, max_vertices),
             int_polygon(meta),
             regular_polygon(sz, cmode, meta, max_vertices)]
    if annuli:
        parts += [circle_annulus(sz, cmode, meta),
                  asym_annulus('EllipseAnnulusPixelRegion', sz, cmode, meta,
                               max_ratio),
                  asym_annulus('RectangleAnnulusPixelRegion', sz, cmode, meta,
                               max_ratio)]
    return st.one_of(parts)


def simple_pixel(sz, cmode='any', meta=True, max_ratio=100.0):
    return st.one_of(maskable(sz, cmode, meta, max_ratio), point(cmode, meta),
                     line(cmode, meta), text(cmode, meta))


def compound(leaf, max_depth=3, with_meta=True):
    """Nested and/or/xor expressions over *leaf* specs."""
    def node(children):
        d = {'cls': st.just('CompoundPixelRegion'),
             'op': st.sampled_from(['and', 'or', 'xor']),
             'r1': children, 'r2': children,
             'via': st.sampled_from(['operator', 'method', 'ctor'])}
        if with_meta:
            d['meta'] = st.sampled_from([None, None, None, {'include': False},
                                         {'include': True}, {'include': 0},
                                         {}, {}])
        return st.fixed_dictionaries(d)
    s = node(leaf)
    for _ in range(max_depth - 1):
        s = node(st.one_of(leaf, s))
    return s


def depth(spec):
    if spec['cls'] != 'CompoundPixelRegion':
        return 0
    return 1 + max(depth(spec['r1']), depth(spec['r2']))


def leaves(spec):
    if spec['cls'] != 'CompoundPixelRegion':
        return [spec]
    return leaves(spec['r1']) + leaves(spec['r2'])


def angle_family(spec):
    a = spec.get('angle')
    if a is None:
        return 'angle:none'
    deg = a[0] / UNIT_PER_DEG[a[1]]
    if abs(deg) > 1000:
        return 'angle:huge'
    if abs(math.remainder(deg, 90.0)) < 1e-9:
        return 'angle:mult90'
    return 'angle:generic'
