"""Hypothesis strategies for sky-region specs (see vf.spec.build_sky)."""
from hypothesis import strategies as st

from vf.gen import regions as G

FRAMES = ['icrs', 'fk5', 'fk4', 'galactic', 'fk5_j1975']
ANG_UNITS = ['arcsec', 'arcmin', 'deg', 'rad']
TO_ARCSEC = {'arcsec': 1.0, 'arcmin': 60.0, 'deg': 3600.0, 'rad': 206264.80624709636}


def skycoords(frames=FRAMES, max_lat=85.0):
    return st.fixed_dictionaries({
        'frame': st.sampled_from(list(frames)),
        'lon': st.floats(0, 360, exclude_max=True),
        'lat': st.floats(-max_lat, max_lat)})


def angsizes(lo_arcsec=0.01, hi_arcsec=36000.0):
    """[value, unit] with the size log-uniform in arcsec."""
    import math
    return st.tuples(st.floats(math.log10(lo_arcsec), math.log10(hi_arcsec)),
                     st.sampled_from(ANG_UNITS)).map(
        lambda t: [10.0 ** t[0] / TO_ARCSEC[t[1]], t[1]])


def _common(d, meta=True):
    d = dict(d)
    if meta:
        d['meta'] = G.include_meta()
    return st.fixed_dictionaries(d)


def circle(sz, frames=FRAMES, meta=True):
    return _common({'cls': st.just('CircleSkyRegion'),
                    'center': skycoords(frames), 'radius': sz}, meta)


def _wh(cls, sz, frames, meta):
    return _common({'cls': st.just(cls), 'center': skycoords(frames),
                    'width': sz, 'height': sz, 'angle': G.angles()}, meta)


def ellipse(sz, frames=FRAMES, meta=True):
    return _wh('EllipseSkyRegion', sz, frames, meta)


def rectangle(sz, frames=FRAMES, meta=True):
    return _wh('RectangleSkyRegion', sz, frames, meta)


def _scaled(q, f):
    return [q[0] * f, q[1]]


def circle_annulus(sz, frames=FRAMES, meta=True):
    return st.tuples(_common({'cls': st.just('CircleAnnulusSkyRegion'),
                              'center': skycoords(frames),
                              'inner_radius': sz}, meta),
                     st.floats(0.05, 3.0)).map(
        lambda t: dict(t[0], outer_radius=_scaled(t[0]['inner_radius'],
                                                  1 + t[1])))


def asym_annulus(cls, sz, frames=FRAMES, meta=True):
    return st.tuples(_common({'cls': st.just(cls), 'center': skycoords(frames),
                              'inner_width': sz, 'inner_height': sz,
                              'angle': G.angles()}, meta),
                     st.floats(0.05, 3.0), st.floats(0.05, 3.0)).map(
        lambda t: dict(t[0],
                       outer_width=_scaled(t[0]['inner_width'], 1 + t[1]),
                       outer_height=_scaled(t[0]['inner_height'], 1 + t[2])))


def polygon(frames=FRAMES, meta=True, max_vertices=8, spread_deg=0.2):
    def mk(t):
        d, c, offs = t
        lon = [(c['lon'] + o[0]) % 360.0 for o in offs]
        lat = [max(-89.0, min(89.0, c['lat'] + o[1])) for o in offs]
        return dict(d, vertices={'frame': c['frame'], 'lon': lon, 'lat': lat})
    off = st.floats(-spread_deg, spread_deg)
    return st.tuples(_common({'cls': st.just('PolygonSkyRegion')}, meta),
                     skycoords(frames, 80.0),
                     st.lists(st.tuples(off, off), min_size=3,
                              max_size=max_vertices, unique=True)).map(mk)


def point(frames=FRAMES, meta=True):
    return _common({'cls': st.just('PointSkyRegion'),
                    'center': skycoords(frames)}, meta)


def line(frames=FRAMES, meta=True):
    def mk(t):
        d, c, o, f2 = t
        end = {'frame': c['frame'], 'lon': (c['lon'] + o[0]) % 360.0,
               'lat': max(-89.0, min(89.0, c['lat'] + o[1]))}
        if f2 and f2 != c['frame']:
            # the SAME point of the sky, written in the other frame
            from vf import spec as S
            try:
                e2 = S.skycoord(end).transform_to(
                    S.skycoord({'frame': f2, 'lon': 0.0, 'lat': 0.0}).frame)
                end = {'frame': f2, 'lon': float(e2.spherical.lon.deg),
                       'lat': float(e2.spherical.lat.deg)}
            except Exception:   # noqa: BLE001 - a frame pair astropy cannot
                pass            # connect offline: keep the start's frame
        return dict(d, start=c, end=end)
    off = st.floats(-0.2, 0.2)
    return st.tuples(_common({'cls': st.just('LineSkyRegion')}, meta),
                     skycoords(frames, 80.0), st.tuples(off, off),
                     # (the end point may be given in another frame / equinox)
                     st.sampled_from([None, None, None] + list(frames))).map(mk)


def text(frames=FRAMES, meta=True):
    return _common({'cls': st.just('TextSkyRegion'),
                    'center': skycoords(frames),
                    'text': st.sampled_from(['a', 'hello world', ''])}, meta)


def simple_sky(sz=None, frames=FRAMES, meta=True):
    sz = angsizes() if sz is None else sz
    return st.one_of(circle(sz, frames, meta), ellipse(sz, frames, meta),
                     rectangle(sz, frames, meta), polygon(frames, meta),
                     circle_annulus(sz, frames, meta),
                     asym_annulus('EllipseAnnulusSkyRegion', sz, frames, meta),
                     asym_annulus('RectangleAnnulusSkyRegion', sz, frames, meta),
                     point(frames, meta), line(frames, meta),
                     text(frames, meta))


def compound(leaf, max_depth=2):
    def node(children):
        return st.fixed_dictionaries({
            'cls': st.just('CompoundSkyRegion'),
            'op': st.sampled_from(['and', 'or', 'xor']),
            'r1': children, 'r2': children,
            'via': st.sampled_from(['operator', 'method', 'ctor']),
            'meta': st.sampled_from([None, None, {'include': False},
                                     {'text': 'c'}])})
    s = node(leaf)
    for _ in range(max_depth - 1):
        s = node(st.one_of(leaf, s))
    return s
