"""Hypothesis strategies for celestial WCS specs (see vf.spec.build_wcs)."""
import math

from hypothesis import strategies as st


PAST = st.fixed_dictionaries({
    'drot': st.floats(-170, 170), 'fscale': st.floats(-0.4, 0.4),
    'dcrval': st.tuples(st.floats(-30, 30), st.floats(-30, 30)).map(list),
    'dcrpix': st.tuples(st.floats(-40, 40), st.floats(-40, 40)).map(list)})


def wcs_specs(projs=('TAN', 'SIN', 'CAR'), frames=('icrs', 'fk5', 'fk4',
                                                    'galactic', 'fk5_j1975'),
              scale=(0.01 / 3600.0, 0.1), parities=(-1, 1), max_lat=85.0,
              past=True):
    lo, hi = math.log10(scale[0]), math.log10(scale[1])
    rot = st.one_of(st.sampled_from([0.0, 90.0, 180.0, 270.0, 33.0, -75.0,
                                     120.0]),
                    st.floats(-180, 180), st.floats(-180, 180))
    return st.fixed_dictionaries({
        'proj': st.sampled_from(list(projs)),
        'frame': st.sampled_from(list(frames)),
        'parity': st.sampled_from(list(parities)),
        'rot': rot,
        'scale': st.floats(lo, hi).map(lambda e: 10.0 ** e),
        'crval': st.tuples(st.floats(0, 360, exclude_max=True),
                           st.floats(-max_lat, max_lat)).map(list),
        'crpix': st.tuples(st.floats(-50, 400), st.floats(-50, 400)).map(list),
        # the WCS object's past (vf.spec.build_wcs): another state, used,
        # then edited in place
        'past': st.one_of(st.none(), st.none(), PAST) if past else st.none(),
    })


def rot_family(w):
    r = w.get('rot', 0.0)
    return 'wcsrot:mult90' if abs(math.remainder(r, 90.0)) < 1e-9 \
        else 'wcsrot:generic'
