#!/venv/bin/python
"""Which lines / branches of regions/ do the checks never execute?
Runs every relation of every property in-process (one shard, a fraction of the
quick budget) under coverage.py and prints the missed lines per file.
    tools/coverage_report.py [scale] [C01 C02 ...]
Not a check: a tool for finding generator gaps."""
import importlib
import json
import os
import sys
import warnings

HERE = os.path.dirname(os.path.dirname(os.path.abspath(__file__)))
sys.path.insert(0, HERE)
sys.path.insert(1, os.path.join(HERE, '.deps'))
os.environ.setdefault('MPLBACKEND', 'Agg')
os.environ.setdefault('PYTHONHASHSEED', '0')
import coverage   # noqa: E402

scale = float(sys.argv[1]) if len(sys.argv) > 1 else 0.3
props = sys.argv[2:] or [f'C{i:02d}' for i in range(1, 21)]
out = os.path.join(HERE, '.cache', 'coverage')
os.makedirs(out, exist_ok=True)
cov = coverage.Coverage(data_file=os.path.join(out, 'data'), branch=True,
                        source=['/repo/regions'],
                        omit=['*/tests/*', '*/_utils/examples.py',
                              '*/conftest.py', '*/version.py'])
cov.start()
from vf import bootstrap   # noqa: E402,F401
from vf.runner import run_task   # noqa: E402
warnings.simplefilter('ignore')
for p in props:
    mod = importlib.import_module(f'vf.props.{p.lower()}')
    for r in mod.RELATIONS:
        res = run_task((p, r.name, 'quick', 1, 0, 1, [], scale))
        print(p, r.name, res.get('evaluations'), 'error' if res['error'] else '',
              len(res.get('failures') or []), file=sys.stderr)
        if res['error']:
            print(res['error'][-600:], file=sys.stderr)
cov.stop()
cov.save()
cov.report(show_missing=True, skip_covered=False, file=open(os.path.join(out, 'report.txt'), 'w'))
print(open(os.path.join(out, 'report.txt')).read())
