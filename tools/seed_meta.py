#!/usr/bin/env python3
"""usage: tools/seed_meta.py <id> <change> <needs> <result>  -> seeded/<id>/meta.json (confirmation data read from seeded/<id>/ logs)"""
import json, sys, os, re
ID, change, needs, result = sys.argv[1:5]
d = f'/verif/seeded/{ID}'
conf = open(f'/tmp/seedround.{ID}.confirm').read()
m = re.search(r'with change rc=(\d+).*without rc=(\d+)', conf)
suite = open(f'{d}/suite_with_change.log').read().strip()
meta = {
 'id': ID, 'breaks_property': ID[:3],
 'written_by': 'independent sub-agent given only the property text, one-line descriptions of the earlier seeded changes to avoid, and its own git worktree',
 'change': change, 'needs_to_manifest': needs,
 'confirmed': {'demo_with_change_exit': int(m.group(1)), 'demo_without_change_exit': int(m.group(2)),
               'suite_with_change': suite,
               'how': 'tools/seed_confirm.sh (patch applied / reverse-applied in the scratch worktree; full pinned pytest command incl. docs doctests with the worktree on PYTHONPATH)'},
 'checks_run': f'VERIF_REPO=/tmp/seed-{ID} ./check {ID[:3]} --no-evidence (quick tier, seed 1)',
 'result': result}
json.dump(meta, open(f'{d}/meta.json', 'w'), indent=1)
print('wrote', d)
