#!/venv/bin/python
"""Run the repository's pinned test suite (guard OFF) and compare the set of
passing tests with /root/.vp/BASELINE.json's stable_pass list.
Exit 0 iff every stable_pass test still passes."""
import json
import os
import subprocess
import sys
import tempfile
import xml.etree.ElementTree as ET

base = json.load(open('/root/.vp/BASELINE.json'))
want = set(base['stable_pass'])
env = dict(os.environ)
env.pop('ASTROPY_REGIONS_VERIF', None)
env.pop('PYTHONPATH', None)
with tempfile.TemporaryDirectory(dir=os.environ.get('VERIF_SCRATCH')) as td:
    xml = os.path.join(td, 'junit.xml')
    subprocess.run(['/venv/bin/python', '-m', 'pytest', '-ra', '-q', '-p',
                    'no:cacheprovider', '--timeout=900',
                    '--continue-on-collection-errors', f'--junitxml={xml}'],
                   cwd=sys.argv[1] if len(sys.argv) > 1 else '/repo', env=env,
                   stdout=subprocess.PIPE, stderr=subprocess.STDOUT)
    passed = set()
    for tc in ET.parse(xml).getroot().iter('testcase'):
        if not list(tc):
            passed.add(f"{tc.get('classname')}::{tc.get('name')}")
missing = sorted(want - passed)
print(f'stable_pass={len(want)} passed_now={len(passed)} missing={len(missing)}')
for m in missing[:40]:
    print('  NOT PASSING:', m)
sys.exit(1 if missing else 0)
