#!/bin/bash
# For every seeded defect: apply it to /repo itself, run the quick check of its property, undo it.
# usage: tools/seed_apply_check.sh [ids...]
cd /verif
IDS=${@:-$(ls seeded)}
for id in $IDS; do
  P=$(python3 -c "import json;print(json.load(open('seeded/$id/meta.json'))['breaks_property'])")
  git -C /repo diff --quiet || { echo "/repo not clean"; exit 2; }
  git -C /repo apply /verif/seeded/$id/patch.diff || { echo "$id PATCH DOES NOT APPLY"; continue; }
  ./check $P --no-evidence > /tmp/seedchk.$id.log 2>&1; rc=$?
  git -C /repo checkout -- .
  echo "$id -> $P exit=$rc $(grep -c '^VIOLATION' /tmp/seedchk.$id.log) violations; $(grep -m1 'finding-key' /tmp/seedchk.$id.log | cut -c1-150)"
done
