#!/usr/bin/env python3-vt
"""Validate MANIFEST.json and every evidence file against the schemas."""
import glob, json, sys, jsonschema
ok = True
man = json.load(open('/verif/MANIFEST.json'))
jsonschema.validate(man, json.load(open('/root/.vp/MANIFEST.schema.json')))
sch = json.load(open('/root/.vp/EVIDENCE.schema.json'))
claimed = {c['property_id']: c for c in man['checks']}
for pid, c in sorted(claimed.items()):
    try:
        ev = json.load(open(c['evidence_file']))
        jsonschema.validate(ev, sch)
        assert ev['level'] == c['level_claimed']['category'], 'level mismatch'
        print(pid, 'ok', ev['tier'], 'eval', ev['coverage']['evaluations'], 'nt', ev['coverage']['distinct_nontrivial'], 'wall', ev['wall_s'])
    except Exception as e:
        ok = False
        print(pid, 'INVALID', str(e)[:300])
props = [json.loads(l)['id'] for l in open('/verif/properties.jsonl')]
na = {n['property_id'] for n in man.get('not_applicable', [])}
for p in props:
    if (p in claimed) == (p in na):
        ok = False; print(p, 'must be exactly one of claimed / not_applicable')
sys.exit(0 if ok else 1)
