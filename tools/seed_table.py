#!/usr/bin/env python3
"""Regenerate the table of seeded defects in DESIGN.md (section 9.5) from seeded/*/meta.json."""
import glob, json, os, re
here = os.path.dirname(os.path.dirname(os.path.abspath(__file__)))
rows = []
for m in sorted(glob.glob(os.path.join(here, 'seeded', '*', 'meta.json'))):
    d = json.load(open(m))
    res = d['result'].replace('|', '\\|') if False else d['result']
    caught = 'only after strengthening' if res.lstrip().upper().startswith('MISSED') else 'at once'
    esc = lambda t: t.replace('\n', ' ').replace('|', '\\|') if '|' in t and False else t.replace('\n', ' ')
    rows.append(f"| {d['id']} | {esc(d['change'])} | {esc(d['needs_to_manifest'])} | {caught} | {esc(res)} |")
p = os.path.join(here, 'DESIGN.md')
s = open(p).read()
head = '| id | change (written by a sub-agent that saw only the property text) | needs | caught | by which check / what was strengthened |\n|---|---|---|---|---|\n'
i = s.index(head) + len(head)
j = s.index('\n\n', i)
s = s[:i] + '\n'.join(rows) + s[j:]
open(p, 'w').write(s)
n_once = sum('| at once |' in r for r in rows)
print(len(rows), 'rows;', n_once, 'at once')
