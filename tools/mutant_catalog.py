"""Hand-written mutants (sensitivity plan of DESIGN.md section 5, 'S' items).
Each is a single textual replacement in /repo/regions/<file> that still
imports; 'props' are the properties whose quick check must report it."""

MUTANTS = [
    # ------------------------------------------------------------- C01
    dict(id='ell_contains_sign', file='shapes/ellipse.py', props=['C01'],
         old="in_ell = ((2 * (cos_angle * dx + sin_angle * dy) / self.width) ** 2",
         new="in_ell = ((2 * (cos_angle * dx - sin_angle * dy) / self.width) ** 2"),
    dict(id='rect_contains_swap_wh', file='shapes/rectangle.py', props=['C01'],
         old="in_rect = ((np.abs(dx_rot) < self.width * 0.5)\n                   & (np.abs(dy_rot) < self.height * 0.5))",
         new="in_rect = ((np.abs(dx_rot) < self.height * 0.5)\n                   & (np.abs(dy_rot) < self.width * 0.5))"),
    dict(id='circle_contains_le', file='shapes/circle.py', props=['C01'],
         old="in_circle = self.center.separation(pixcoord) < self.radius",
         new="in_circle = self.center.separation(pixcoord) < self.radius * (1 + 1e-7)"),
    dict(id='line_include_dropped', file='shapes/line.py', props=['C01'],
         old="        if self.meta.get('include', True):\n            return in_reg\n        else:\n            return np.logical_not(in_reg)",
         new="        return in_reg"),
    dict(id='poly_scalar_shape', file='shapes/polygon.py', props=['C01'],
         old="        if pixcoord.isscalar:\n            in_poly = in_poly[0]\n",
         new=""),
    dict(id='compound_include_dropped', file='core/compound.py', props=['C01', 'C08'],
         old="        if self.meta.get('include', True):\n            return in_reg\n        else:\n            return np.logical_not(in_reg)\n\n    def to_mask",
         new="        return in_reg\n\n    def to_mask"),
    dict(id='pnpoly_vx_for_vy', file='_geometry/pnpoly.c', props=['C01'],
         old=None, new=None),   # filled in below when the .c text is known
]

MUTANTS = [m for m in MUTANTS if m['old'] is not None]
