#!/usr/bin/env python3
"""Print the brief for a sub-agent that is to write a seeded defect.
usage: tools/seed_prompt.py <Cxx> <id>      (id = directory suffix, e.g. C07e)
The brief contains ONLY the property text, one-line descriptions of earlier seeded
changes for that property (to avoid duplicates) and the scratch worktree path."""
import json, os, sys, glob
P, ID = sys.argv[1], sys.argv[2]
here = os.path.dirname(os.path.dirname(os.path.abspath(__file__)))
prop = next(json.loads(l) for l in open(os.path.join(here, 'properties.jsonl')) if json.loads(l)['id'] == P)
earlier = []
for m in sorted(glob.glob(os.path.join(here, 'seeded', '*', 'meta.json'))):
    d = json.load(open(m))
    if d.get('breaks_property') == P:
        earlier.append(f"- {d['change']} (needs: {d['needs_to_manifest']})")
D = f'/tmp/seed-{ID}'
print(f"""You are helping to evaluate a verification harness for the Python library astropy/regions. Your job is to write ONE realistic, subtle defect ("seeded change") that breaks the semantic property stated below, in your own scratch git worktree of the repository: {D}
Work ONLY inside {D}. Never touch /repo or /verif (do not read /verif either).

THE PROPERTY ({P}): {prop['title']}
Statement: {prop['statement']}
Quantified over: {prop['quantifier']['text']}
Code it is anchored in: {', '.join(prop['anchors']['files'])}

WHAT TO PRODUCE
1. A change to the library source under {D}/regions/ (Python files only: there is no Cython in this sandbox, so do NOT edit .pyx/.c files; do not edit tests, docs or conftest) that makes the property FALSE for some inputs/histories, while
   - the package still imports, and
   - the existing pinned test suite still passes completely:  cd {D} && PYTHONPATH={D} /venv/bin/python -m pytest -q -p no:cacheprovider --timeout=900 --continue-on-collection-errors 2>&1 | tail -3   (the unchanged tree gives "1010 passed, 15 skipped"; with a few pre-existing "failed/errors" entries that are unrelated collection problems - what matters is that the number passed stays 1010 and no NEW failure appears; run it before and after your change and compare). The docs/*.rst doctests are part of that suite.
   The change should look like something a maintainer could plausibly commit (a refactoring, an optimisation, a cache, a 'simplification', a fix for something else), not sabotage.
2. It must need SOMETHING SPECIFIC to manifest - an unusual but legitimate input, a particular combination of options, a multi-step sequence of operations on the same objects, state left over from an earlier call, or two cooperating sites that each look fine alone. Ordinary single-call use with typical values must still behave correctly (that is why the tests pass).
3. A demonstration {D}/demo_{ID}.py: a small standalone program using only the public API that exits with status 1 (printing what went wrong) when your change is present and exits 0 on the unchanged tree. Run it as: cd {D} && PYTHONPATH={D} /venv/bin/python demo_{ID}.py . Verify both directions yourself (git stash is shared between worktrees - do not use it; use `git diff > /tmp/{ID}.diff; git apply -R /tmp/{ID}.diff; ...; git apply /tmp/{ID}.diff`).
   The demonstration must show a violation of the property AS STATED (stay inside the quantified domain; do not rely on behaviour the statement does not promise).
4. Leave the change applied (uncommitted) in the worktree, with demo_{ID}.py in the worktree root. Do not commit.

Earlier seeded changes for this property - yours must use a DIFFERENT mechanism and preferably attack a clause of the statement, a code path or a corner of the input space that these do not touch (read the statement clause by clause, and read the anchored code for paths that rarely run):
{chr(10).join(earlier) if earlier else '- (none)'}

Use `PYTHONPATH={D} /venv/bin/python` for everything (it has numpy, astropy, matplotlib, pytest). No network. Be economical: read the anchored files, pick the mechanism, implement, test.

FINAL REPORT (short, under 200 words): (a) one sentence: what the change is and in which file/function; (b) one sentence: exactly what is needed for it to manifest; (c) test-suite tail line with the change; (d) demo exit status with and without the change. If you could not produce a change that keeps the suite green, say so plainly instead.""")
