#!/bin/bash
# Like seed_apply_check.sh, but in a scratch worktree of /repo HEAD (so that /repo itself stays free):
# for every seeded defect apply the patch there, run the quick check of its property with VERIF_REPO, undo.
# usage: tools/seed_apply_check_wt.sh [ids...]        (run from the /verif checkout to be tested)
HERE="$(cd "$(dirname "${BASH_SOURCE[0]}")/.." && pwd)"
cd "$HERE"
W=/tmp/seed-applywt-$$
git -C /repo worktree add -q --detach "$W" HEAD || exit 2
(cd /repo && git ls-files -o -i --exclude-standard | grep -E '\.(so|c)$|version\.py$' | while read f; do mkdir -p "$W/$(dirname "$f")"; cp -p "$f" "$W/$f"; done)
IDS=${@:-$(ls seeded)}
for id in $IDS; do
  P=$(python3 -c "import json;print(json.load(open('seeded/$id/meta.json'))['breaks_property'])")
  git -C "$W" apply "$HERE/seeded/$id/patch.diff" 2>/dev/null || { echo "$id PATCH DOES NOT APPLY"; git -C "$W" checkout -q -- .; continue; }
  VERIF_REPO="$W" ./check $P --no-evidence > /tmp/seedchkwt.$id.log 2>&1; rc=$?
  git -C "$W" checkout -q -- .
  echo "$id -> $P exit=$rc $(grep -c '^VIOLATION' /tmp/seedchkwt.$id.log) violations; $(grep -m1 'finding-key' /tmp/seedchkwt.$id.log | cut -c1-150)"
done
git -C /repo worktree remove --force "$W"
