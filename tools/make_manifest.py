#!/usr/bin/env python3-vt
"""Regenerate MANIFEST.json from the table below (kept valid at all times)."""
import json
import os
import subprocess

HERE = os.path.dirname(os.path.dirname(os.path.abspath(__file__)))

# property -> (category, technique, level text, level note, design ref)
CLAIMED = {
    'C19': ('exploration',
            'exhaustive enumeration of a bounded box/shape domain against a '
            'pixel-set model + Hypothesis for large corners, numpy ints and '
            'floats at rounding boundaries',
            'Every box with corners in [-4, 6] x every other box (19 M pairs), '
            'all triples over [-2, 2], all image shapes to 7x7 and the 1/8-px '
            'float lattice are enumerated completely in the thorough tier '
            '(smaller ranges in quick) and every answer is compared with a '
            'set-of-pixels model; outside the bounded domain the evidence is '
            'random search only.',
            'Pixel-set model in vf/props/c19.py; Python int / set semantics; '
            'from_float checked to 4 ulp off the dyadic lattice.',
            'DESIGN.md section 5, C19'),
    'C01': ('exploration',
            'Hypothesis property test: library membership vs a reference '
            'written from the geometric definitions, with an explicit '
            'float-rounding band; metamorphic include-flip; answer-shape checks',
            'Random search over all pixel classes x sizes over 9 decades x any '
            'angle/unit x aligned/far centres x query layouts; every definite '
            'point is compared with an independent reference (vertical-ray '
            'even-odd for polygons, margins for conics/boxes). Sensitive to '
            'a 1e-7 relative change of a radius (mutant run). Not a proof: '
            'points inside the rounding band are skipped.',
            'Reference model vf/ref/geometry.py (float64, angles reduced in '
            'their own unit); numpy; astropy unit conversion for building '
            'the inputs.',
            'DESIGN.md section 5, C01'),
    'C02': ('exploration',
            'Hypothesis property test: every mask value vs the reference '
            'membership evaluated on the n x n sub-sample lattice (interval '
            '[lo, hi] widened only by samples inside the rounding band); '
            'mode/argument validation table',
            'Random search over maskable classes, annuli and compounds to '
            'depth 3, all alignments to the pixel grid incl. far centres, '
            'subpixels 1..12. Every pixel of every generated mask is '
            'compared (rows band for very large masks). Catches a half-pixel '
            'grid shift, swapped padding, a 1e-4 relative size change in a '
            'compiled kernel (mutant runs). Random evidence, not a proof.',
            'Reference membership vf/ref/geometry.py; kernels are the built '
            '.so files (rebuilt from .c when stale; .pyx edits cannot be '
            'translated offline).',
            'DESIGN.md section 5, C02'),
    'C04': ('exploration',
            'Hypothesis property test: integer box vs the true extent in '
            '40-digit mpmath (enclosure + minimality), exact (tolerance 0) on '
            'the dyadic edge-aligned family; union algebra for compounds; '
            'member points inside extent; mask box identity',
            'Random search over all pixel classes with a dedicated '
            'edge-aligned family (extremes exactly on / one ulp off pixel '
            'edges) where the comparison is exact, plus generic geometry with '
            'a 64-eps tolerance. Detects round-half-even vs floor(x+0.5) '
            '(mutant run).',
            'mpmath arithmetic; extents formulae in vf/ref/extent.py; '
            'compound boxes compared with the union of the library\'s own '
            'leaf boxes (leaf boxes are checked individually).',
            'DESIGN.md section 5, C04'),
    'C03': ('exploration',
            'Hypothesis property test of exact masks against an independent '
            'mpmath Green-theorem overlap area (1e-8) + complete enumeration '
            'of an aligned lattice + convergence bound for subpixel masks',
            'Generic geometry: random circles/ellipses over 6 decades of size, '
            'whole masks (range, sum = analytic area) and boundary pixels vs '
            'the 30-digit reference; aligned geometry: 7 400 (quick) / 18 500 '
            '(thorough) lattice regions enumerated completely, every pixel '
            'compared; convergence: per-pixel bound from the boundary pieces '
            'inside the pixel. The elliptical kernel fails on 512 listed '
            'lattice inputs (known finding, excluded by key). Detects a 1e-6 '
            'relative perturbation inside the compiled kernel (mutant run).',
            'mpmath; reference algorithm vf/ref/area_mp.py validated against '
            'closed forms and 2000^2 grid sampling; kernels are the built .so '
            '(rebuilt from .c when stale).',
            'DESIGN.md section 5, C03'),
    'C05': ('exploration',
            'Hypothesis property test: to_image / cutout / multiply / '
            'get_values / overlap slices vs a dict-of-pixels placement model '
            'evaluated by loops; input fingerprints before/after',
            'Random search over box position (inside, straddling every '
            'edge/corner, outside on each side, empty, larger than the image) '
            'x image shapes incl. 0-sized x int/float/Quantity data x '
            'float64/float32/int weights x fill values x copy flag x optional '
            'data mask; every output element compared exactly (one float32 ulp '
            'where a float32 operand leaves the promotion path open).',
            'Placement model in vf/props/c05.py (loops over a dict of pixels); '
            'numpy scalar arithmetic for the products.',
            'DESIGN.md section 5, C05'),
    'C20': ('exploration',
            'Hypothesis property tests with numpy as the reference '
            '(broadcasting, indexing, arithmetic), algebraic laws for '
            'rotation, WCS round trip and origin-shift metamorphic relation',
            'Random search over x/y shape pairs (scalar, 0-length, N-D, mixed '
            'ranks, non-broadcastable), dtypes, nine kinds of index '
            'expression, rotation centres/angles of any magnitude and unit, '
            'and the celestial WCS family x origin x mode.',
            'numpy semantics; astropy.wcs for the transformations themselves '
            '(the relation checked is PixCoord\'s forwarding of origin/mode and '
            'shape handling).',
            'DESIGN.md section 5, C20'),
    'C15': ('exploration',
            'Hypothesis metamorphic tests: membership/area/parameters under '
            'rotate(c, theta) and rotate back; bounding box and mask arrays '
            'under integer translations of dyadic regions',
            'Random search over all pixel classes incl. compounds, pivots on '
            'and off the region, angles of any magnitude/unit; the library\'s '
            'own contains() is compared before/after on points the reference '
            'margin declares definite. Translation: masks must be '
            'array-identical in centre/subpixels/exact modes (pixels with a '
            'sample inside the rounding band excepted).',
            'Reference rotation formula and margins in the harness; ambiguity '
            'bands of vf/ref/geometry.py.',
            'DESIGN.md section 5, C15'),
    'C08': ('exploration',
            'Hypothesis property tests: per-node algebra of contains / centre '
            'mask (dict-of-pixels placement) / box for nested compounds; '
            'commutation with to_sky, to_pixel, rotate; annulus vs '
            'independently built inner/outer shapes',
            'Random search over clustered operand pairs and nested expressions '
            'to depth 3 built through operators, methods and the constructor, '
            'with include flags on operands and compounds; the WCS family for '
            'the commutation relations.',
            'The library\'s own operand answers/masks are the inputs of the '
            'algebraic oracle (operands are checked by C01/C02); reference '
            'margins give a second opinion on membership.',
            'DESIGN.md section 5, C08'),
    'C16': ('exploration',
            'Hypothesis property test over all region classes with one '
            'generated perturbation per case (deep fingerprints decide "exactly '
            'that field"); rule-based state machine with a Python-list model '
            'for Regions lists',
            'Random search over 21 region classes + pixel/sky compounds with '
            'populated meta/visual x perturbation kinds (every parameter, meta '
            'and visual entry set/removed/changed, class, vertex count, '
            'sub-tolerance and supra-tolerance position changes, unit '
            're-expression) x in-place mutations of everything reachable; list '
            'histories of up to 25/40 steps over up to 6 aliased/derived lists.',
            'Fingerprints of vf/fingerprint.py; astropy\'s own Quantity equality '
            'defines which unit re-expressions are "equal".',
            'DESIGN.md section 5, C16'),
    'C17': ('exploration',
            'Hypothesis-driven catalogue of invalid/valid values per documented '
            'parameter kind x {constructor, assignment}; rule-based state '
            'machine per region with a fingerprint shadow model; every dict '
            'entry point of RegionMeta/RegionVisual; container constructors',
            'Random search over 23 classes x every parameter x ~10 invalid '
            'values per kind, histories of 20 interleaved valid/invalid '
            'assignments, deletions and meta/visual mutations. A rejected '
            'operation must raise ValueError/TypeError/KeyError and leave the '
            'deep fingerprint unchanged. The annulus cross-field ordering on '
            'assignment is a listed known finding, excluded by construction '
            'and probed separately.',
            'Parameter kinds read from the documented signatures '
            '(vf/props/c17.py: kind_of); fingerprints of vf/fingerprint.py.',
            'DESIGN.md section 5, C17'),
    'C06': ('exploration',
            'Hypothesis round-trip tests pixel->sky->pixel and sky->pixel->sky '
            'over a generated WCS family, with key-by-key meta/visual '
            'comparison, plus a differential test of sky membership against '
            'the pixel image',
            'Random search over all region classes incl. compounds x '
            'TAN/SIN/CAR x any rotation x both parities x 0.01"..0.1 deg/px x '
            'ICRS/FK5/FK4/Galactic, regions within 300 px of CRPIX. Sky '
            'parameters are compared only for components expressed in the '
            'WCS\'s own frame (otherwise the pixel images decide). Orientation '
            'errors that cancel in a round trip are C07\'s business.',
            'astropy.wcs / astropy.coordinates for the transformations; '
            'tolerances 1e-6 relative as stated by the property (measured '
            'head-room: three decades).',
            'DESIGN.md section 5, C06'),
    'C07': ('exploration',
            'Hypothesis property test with an absolute oracle: astropy sky '
            'offsets (directional_offset_by) pushed through the WCS must land '
            'on the pixel shape\'s boundary, on the right axis; sizes vs a '
            'finite-difference pixel scale',
            'Random search over circle/ellipse/rectangle/annulus sky regions x '
            'conformal WCS family (TAN/SIN, any rotation, 1e-5..1e-2 deg/px, '
            'ICRS/FK5/Galactic) x region frame equal to or different from the '
            'WCS frame. Catches orientation errors that cancel in a round trip '
            '(both signs flipped; arctan2 arguments swapped).',
            'astropy.coordinates spherical offsets and astropy.wcs are the '
            'trusted base; tolerance 1e-6 + 3 phi^2 + 3 sigma^2 justified by '
            'the projection geometry.',
            'DESIGN.md section 5, C07'),
    'C18': ('exploration',
            'Hypothesis property test: patch paths taken to data space, '
            'flattened by our own Bezier sampling and tested with the non-zero '
            'winding rule against region.contains; sub-path orientation for '
            'annuli; positions of point/text/line artists; caller kwargs vs '
            'stored visual',
            'Random search over the eight patch classes x parameters/angles x '
            'plot origins (points with a margin > 0.5 % of the size), '
            'point/line/text x origins, per-artist visual dictionaries '
            '(mpl-style and as produced by the DS9 reader) x overriding kwargs.',
            'matplotlib patch transforms; our own flattening/winding code '
            '(vf/props/c18.py); matplotlib colour conversion for comparing '
            'colours.',
            'DESIGN.md section 5, C18'),
    'C09': ('exploration',
            'Hypothesis round-trip / fixed-point tests of DS9 serialise->parse '
            'over generated region lists with controlled metadata sharing; '
            'metamorphic skip relation; determinism across child interpreters '
            'with different PYTHONHASHSEED',
            'Random search over the ten DS9 shapes x six frames x precision '
            '1..12 x lists of 1..8 x the DS9 metadata/visual vocabulary; every '
            'number compared to half a unit of the requested precision in the '
            'serialised unit; parse(ser(P1)) == P1 with the library\'s full '
            'equality; unsupported members must leave the text of the others '
            'unchanged; three fresh interpreters per sampled list.',
            'astropy number formatting (positional vs scientific) is modelled '
            'in the tolerance; sizes are raised to the precondition of the '
            'property by construction.',
            'DESIGN.md section 5, C09'),
    'C10': ('exploration',
            'Grammar-based generation of abstract DS9 files rendered to text, '
            'differential test against a reference interpreter that walks the '
            'abstract statements (no shared code with regions.io); plus a '
            'coverage-guided (atheris/libFuzzer via fuzz_one_input) campaign '
            'over the same grammar and oracle',
            'Random search over files of up to 12 (quick) / 40 (thorough) '
            'statements mixing frames, aliases, unsupported frames/shapes, '
            'globals, composites, all coordinate notations and size units, '
            'separators, terminators and text delimiters; every parsed region '
            'is compared with the reference (count, order, class, frame, '
            'geometry 1e-9, include, text, tags, flags, colour).',
            'Reference rules in vf/ref/ds9ref.py written from the DS9 '
            'reference manual and the property statement; where the manual is '
            'silent the grammar does not generate.',
            'DESIGN.md section 5, C10'),
    'C11': ('exploration',
            'Hypothesis round-trip / fixed-point tests of CRTF serialise->parse '
            'over classes x frames x coordsys x fmt x radunit x metadata, and a '
            'grammar-based differential test of the reader against a reference '
            'interpreter of the CASA rules (random tier plus a coverage-guided '
            'atheris/libFuzzer campaign over the same grammar and oracle)',
            'Write side: random lists of CRTF-representable regions; every '
            'number within half a unit of fmt in the written unit, include / '
            'ann / label / metadata preserved, caller\'s regions untouched, '
            'parse->serialise->parse fixed point. Read side: abstract files '
            'with global/inline precedence, coord=, +/-/ann prefixes, the three '
            'box forms, all coordinate notations, unit-less lengths rejected. '
            'Three writer/regex defects are listed known findings, excluded by '
            'construction and probed.',
            'Reference reader rules in vf/props/c11.py (from the CASA region '
            'format description and the property statement).',
            'DESIGN.md section 5, C11'),
    'C12': ('exploration',
            'Hypothesis round-trip / fixed-point tests of FITS region tables '
            '(in memory and through files) over mixed lists with include and '
            'component patterns; metamorphic skip relation; hand-built tables '
            'in the alternative FITS notations',
            'Random search over lists of 1-8 mixed FITS-representable regions '
            '(columns padded to a common width) x include x component '
            'absent/all/partial x memory/file x extension; geometry compared '
            'exactly, angles to 8 eps. The polygon-padding defect is a listed '
            'known finding (excluded by giving all polygons of a list the '
            'widest vertex count, probed separately).',
            'astropy.table / astropy.io.fits for storage; files under '
            '/verif/.scratch removed by the check.',
            'DESIGN.md section 5, C12'),
    'C14': ('fault_enumeration',
            'complete enumeration, per generated region list, of format x '
            'destination state x overwrite x fault (unserialisable region at '
            'each position, inexpressible members, every invalid option), with '
            'before/after snapshots of the destination and directory; read-back '
            'matrix over extensions, renamed and gzip copies',
            'For each Hypothesis-generated list the whole fault matrix (about '
            '220-300 cells) is executed on real files under /verif/.scratch. '
            'A refused or failed write must leave bytes, file type, link target '
            'and directory listing identical; a successful write must read '
            'back (format given / extension / content signature / gzip) equal '
            'to parsing the serialised data. OS-level write faults are not '
            'injected.',
            'Fault injection by a region object whose size attribute raises; '
            'POSIX filesystem semantics of the sandbox; astropy '
            'get_readable_fileobj for gzip.',
            'DESIGN.md section 5, C14'),
    'C13': ('exploration',
            'Hypothesis rule-based state machine over a shared pool of live '
            'objects with deep fingerprints of the whole pool and of the '
            'module-level tables after every step, a memo of earlier results, '
            'and replays of target operations as the first operation of fresh '
            'child interpreters with different PYTHONHASHSEED',
            'Histories of up to 30 operations drawn from 19 kinds of public '
            'read-only/constructive operations (all three formats, files '
            'included) on 10 pixel + 4 sky regions, 4 lists, coordinates, '
            'images and WCSs. Any mutation of any pool object, any change of a '
            'module table, any result that differs on repetition or from a '
            'fresh interpreter is reported with the shrunk history.',
            'Fingerprints of vf/fingerprint.py (canonical, interpreter '
            'independent); the pool itself is fixed (vf/histops.py), the '
            'histories are generated.',
            'DESIGN.md section 5, C13'),
}

PENDING_REASON = ('check designed (DESIGN.md section 5) but not yet built and '
                  'validated; not claimed until it is')


def main():
    props = [json.loads(l) for l in open(os.path.join(HERE, 'properties.jsonl'))]
    fix_commits = subprocess.run(
        ['git', '-C', '/repo', 'log', '--format=%h %s', '--grep', '^fix:'],
        stdout=subprocess.PIPE, text=True).stdout.strip().splitlines()
    checks = []
    na = []
    for p in props:
        pid = p['id']
        if pid in CLAIMED:
            cat, tech, text, note, ref = CLAIMED[pid]
            checks.append({
                'property_id': pid,
                'quick_cmd': f'./check {pid} --tier quick',
                'thorough_cmd': f'./check {pid} --tier thorough',
                'evidence_file': f'/verif/evidence/{pid}.json',
                'replay_cmd_template': f'./check {pid} --replay {{path}}',
                'engine': 'vf',
                'level_claimed': {'category': cat, 'text': text,
                                  'design_ref': ref},
                'level_note': note,
                'technique': tech,
            })
        else:
            na.append({'property_id': pid, 'reason': PENDING_REASON})
    man = {
        'version': 1,
        'setup_cmd': './setup.sh',
        'hooks': {
            'guard': 'ASTROPY_REGIONS_VERIF',
            'enable': 'no instrumentation hooks are used: every observation is '
                      'made through the public API, the filesystem or '
                      'module-level tables; the guard is declared but unused',
            'baseline_off_cmd': '/verif/tools/baseline_check.py',
            'source_commits': [c.split()[0] for c in fix_commits],
            'add_only': True,
        },
        'engines': [{
            'name': 'vf', 'path': '/verif/vf',
            'serves_properties': sorted(CLAIMED),
            'kind_free_text': 'Hypothesis property tests / rule-based state '
                              'machines / bounded exhaustive enumeration '
                              'against reference models, sharded over 16 '
                              'processes; shrunk failures become JSON replay '
                              'files',
        }],
        'checks': checks,
        'notes': 'source_commits lists the unguarded "fix:" commits in /repo '
                 '(genuine defects repaired; see known_findings.json). '
                 './check bootstraps itself (offline wheelhouse, stale kernels '
                 'rebuilt from the .c files) so it does not depend on setup.sh '
                 'having been run.',
        'not_applicable': na,
    }
    with open(os.path.join(HERE, 'MANIFEST.json'), 'w') as fh:
        json.dump(man, fh, indent=1)
        fh.write('\n')
    import jsonschema
    jsonschema.validate(man, json.load(open('/root/.vp/MANIFEST.schema.json')))
    print(f'MANIFEST.json: {len(checks)} checks, {len(na)} not_applicable; valid')


if __name__ == '__main__':
    main()
