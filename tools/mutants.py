#!/venv/bin/python
"""Sensitivity testing: apply one hand-written mutant at a time to a scratch
copy of /repo/regions (under /tmp, removed afterwards), run the quick check of
the properties it should break, and report whether a VIOLATION was raised.

    tools/mutants.py                 # all mutants in tools/mutant_catalog.py
    tools/mutants.py C01 C04         # only mutants targeting these properties
    tools/mutants.py -m ell_sign     # one mutant by id
"""
import argparse
import os
import re
import shutil
import subprocess
import sys
import tempfile
import time

HERE = os.path.dirname(os.path.dirname(os.path.abspath(__file__)))
sys.path.insert(0, os.path.join(HERE, 'tools'))
from mutant_catalog import MUTANTS   # noqa: E402


def run_one(m, props, tier, scale, relation=None):
    tmp = tempfile.mkdtemp(prefix='regions-mut-')
    try:
        subprocess.run(['rsync', '-a', '--exclude', '__pycache__',
                        '/repo/regions', tmp + '/'], check=True)
        path = os.path.join(tmp, 'regions', m['file'])
        src = open(path).read()
        edits = m.get('edits') or [(m['old'], m['new'])]
        for old, new in edits:
            if src.count(old) != m.get('count', 1):
                return {p: f"PATCH-ERROR old text occurs {src.count(old)}x"
                        for p in props}
            src = src.replace(old, new)
        open(path, 'w').write(src)
        if path.endswith('.c'):
            os.utime(path, None)
        out = {}
        for p in props:
            env = dict(os.environ, VERIF_REPO=tmp)
            t0 = time.time()
            r = subprocess.run([os.path.join(HERE, 'check'), p, '--tier', tier,
                                '--no-evidence', '--scale', str(scale)]
                               + (['--relation', relation.replace(
                                   'Cxx', p)] if relation else []),
                               env=env, stdout=subprocess.PIPE,
                               stderr=subprocess.STDOUT, text=True)
            keys = re.findall(r'finding-key: (.*?) ::', r.stdout)
            if r.returncode == 1:
                out[p] = f'DETECTED ({time.time() - t0:.0f}s) ' + ' || '.join(
                    keys[:3])
            elif r.returncode == 0:
                out[p] = f'MISSED ({time.time() - t0:.0f}s)'
            else:
                out[p] = f'HARNESS-ERROR rc={r.returncode}: ' + r.stdout[-400:]
        return out
    finally:
        shutil.rmtree(tmp, ignore_errors=True)


def main():
    ap = argparse.ArgumentParser()
    ap.add_argument('props', nargs='*')
    ap.add_argument('-m', '--mutant', action='append')
    ap.add_argument('--tier', default='quick')
    ap.add_argument('--scale', type=float, default=1.0)
    ap.add_argument('--relation', help="e.g. 'Cxx.read@guided'")
    a = ap.parse_args()
    n_missed = 0
    for m in MUTANTS:
        if a.mutant and m['id'] not in a.mutant:
            continue
        props = [p for p in m['props'] if not a.props or p in a.props]
        if not props:
            continue
        res = run_one(m, props, a.tier, a.scale, a.relation)
        for p, r in res.items():
            print(f"{m['id']:<28} {p}  {r}", flush=True)
            if not r.startswith('DETECTED'):
                n_missed += 1
    return 1 if n_missed else 0


if __name__ == '__main__':
    sys.exit(main())
