#!/bin/bash
# usage: tools/seed_worktree.sh <name>   -> /tmp/seed-<name> (git worktree of /repo HEAD + build outputs)
set -e
D=/tmp/seed-$1
git -C /repo worktree add -q --detach "$D" HEAD
# git-ignored build outputs the package needs to import
cd /repo && git ls-files -o -i --exclude-standard | grep -E '\.(so|c)$|version\.py$' | while read f; do mkdir -p "$D/$(dirname "$f")"; cp -p "$f" "$D/$f"; done
cd "$D" && PYTHONPATH="$D" /venv/bin/python -c "import regions, os; assert os.path.realpath(regions.__file__).startswith('$D'), regions.__file__; print('worktree ok', regions.__file__)"
