#!/bin/bash
# usage: tools/seed_round.sh <id> [property]   confirm the seeded change in /tmp/seed-<id>, then run the quick check of its property against that worktree
ID=$1; P=${2:-${ID:0:3}}
/verif/tools/seed_confirm.sh $P $ID > /tmp/seedround.$ID.confirm 2>&1
cd /verif
VERIF_REPO=/tmp/seed-$ID ./check $P --no-evidence > /tmp/seedround.$ID.check 2>&1; rc=$?
echo "$ID: $(grep '^demo:' /tmp/seedround.$ID.confirm) | suite: $(tail -1 /tmp/seedround.$ID.confirm) | check exit=$rc violations=$(grep -c '^VIOLATION' /tmp/seedround.$ID.check)"
grep -m3 'finding-key' /tmp/seedround.$ID.check | cut -c1-220
