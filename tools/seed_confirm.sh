#!/bin/bash
# usage: tools/seed_confirm.sh <Cxx> [seed-dir-suffix]  -- confirm a seeded defect in /tmp/seed-<suffix> and store it under seeded/
P=$1; SFX=${2:-$1}; D=/tmp/seed-$SFX; OUT=/verif/seeded/$SFX   # (no git stash: it is shared between worktrees)
mkdir -p $OUT
git -C $D diff > $OUT/patch.diff
cp $D/demo_*.py $OUT/ 2>/dev/null
DEMO=$(ls $D/demo_*.py | head -1)
cd $D
PYTHONPATH=$D /venv/bin/python $DEMO > $OUT/demo_with_change.log 2>&1; RC1=$?
git apply -R $OUT/patch.diff
PYTHONPATH=$D /venv/bin/python $DEMO > $OUT/demo_without_change.log 2>&1; RC0=$?
git apply $OUT/patch.diff
echo "demo: with change rc=$RC1 (want 1), without rc=$RC0 (want 0)"
# existing suite with the change (imports the worktree's package)
cd $D && PYTHONPATH=$D /venv/bin/python -m pytest -q -p no:cacheprovider --timeout=900 --continue-on-collection-errors 2>&1 | tail -1 | sed 's/\x1b\[[0-9;]*m//g' > $OUT/suite_with_change.log
cat $OUT/suite_with_change.log
